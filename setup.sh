#!/bin/sh
# Builds the checker from /verif/symgo (offline; Go 1.26.8 + x/tools v0.50.0 from the module cache).
set -e
cd /verif/symgo
export GOTOOLCHAIN=local PATH=/opt/veriftools/go1.26.8/bin:$PATH GOFLAGS=-mod=mod GOPROXY=off GOSUMDB=off CGO_ENABLED=0
mkdir -p /verif/bin /verif/evidence /verif/out
go build -o /verif/bin/check ./cmd/check
go build -o /verif/bin/symrun ./cmd/symrun
