package receiver

import (
	"strings"
	"time"

	"github.com/gokrazy/rsync/internal/vfsx"
)

// HConfine (C05): a hostile sender's file list (one entry whose name is an arbitrary byte
// string - "..", "../x", "/", "/x", "a/..", ... - of any type, plus the top directory)
// is received by the real decoder and then processed by the delete pass, the generator,
// the receiver and the directory touch-up under arbitrary options. Every file-system
// effect must go through the destination root handle (no ambient path-based call), and
// descriptor-relative calls (mknodat/mkfifoat/bind) must use a plain base name.
// That a root handle confines path resolution is os.Root's contract (trusted).
func HConfine() {
	n := vparam("n")
	fsys := vfsx.New()
	defer fsys.Cleanup()
	fsys.Add(&vfsx.Node{Name: "dst", Kind: vfsx.KDir, Perm: 0o755})
	fsys.Add(&vfsx.Node{Name: "dst/d", Kind: vfsx.KDir, Perm: 0o755})
	fsys.Add(&vfsx.Node{Name: "dst/e", Kind: vfsx.KReg, Perm: 0o644, Data: []byte{5}})
	fsys.Add(&vfsx.Node{Name: "outside", Kind: vfsx.KReg, Perm: 0o600, Data: []byte{9}})

	opts := &TransferOpts{DeleteMode: nd_bool(), PreserveLinks: nd_bool(), PreservePerms: nd_bool(),
		PreserveDevices: nd_bool(), PreserveSpecials: nd_bool(), PreserveTimes: nd_bool(), PreserveUid: nd_bool()}
	o := refOpts{Uid: opts.PreserveUid, Gid: opts.PreserveGid, Devices: opts.PreserveDevices, Specials: opts.PreserveSpecials, Links: opts.PreserveLinks, Checksum: opts.AlwaysChecksum}
	var e refEntry
	e.Name = nd_string(n)
	e.Length = 1
	e.Mtime = nd_i32()
	e.Mode = symMode()
	e.Uid, e.Gid, e.Rdev = nd_i32(), nd_i32(), nd_i32()
	e.Target = symTarget(2)
	top := refEntry{Name: ".", Mode: 0o040755}
	var wire []byte
	var zero refEntry
	wire = refEncodeEntry(wire, &top, &zero, refChoice{LongName: true}, o)
	wire = refEncodeEntry(wire, &e, &top, refChoice{LongName: true}, o)
	wire = refEncodeTail(wire, o, 0)
	conn := newVconn(wire)
	opts.InfoGTE, opts.DebugGTE = noInfo, noDebug
	rt := newRecvTransfer(fsys, conn, nd_i32(), opts)
	rt.DestRoot = fsys.Root("dst")
	fl, err := rt.ReceiveFileList()
	if err != nil {
		vreach("rejected")
		return
	}
	if opts.DeleteMode {
		rt.deleteFiles(fl)
	}
	gen := newVconn(nil)
	rt.Conn.Writer = gen
	gerr := rt.GenerateFiles(fl)
	if gerr == nil && len(gen.out) >= 4 && getI32(gen.out, 0) >= 0 {
		// a file was requested: answer with a one-byte whole-file transfer
		idx := getI32(gen.out, 0)
		data := []byte{7}
		var in []byte
		in = putI32(in, idx)
		in = putI32(in, 0)
		in = putI32(in, 0)
		in = putI32(in, 0)
		in = putI32(in, 0)
		in = putI32(in, 1)
		in = append(in, data...)
		in = putI32(in, 0)
		in = append(in, wholeSum(rt.Seed, data)...)
		in = putI32(in, -1)
		in = putI32(in, -1)
		rt.Conn.Reader = newVconn(in)
		rt.RecvFiles(fl)
		vreach("transferred")
	}
	rt.touchUpDirs(fl)
	if vsymbolic() {
		for _, ev := range fsys.Events {
			if ev.Ambient {
				vassert(false, "file-system effect outside the destination root handle: "+ev.Op)
			}
			if ev.Mutates {
				vassert(ev.Path == "dst" || strings.HasPrefix(ev.Path, "dst/"), "mutating event on a path outside the destination: "+ev.Op)
			}
		}
	}
	out := fsys.Get("outside")
	vassert(out.Kind == vfsx.KReg && len(out.Data) == 1 && out.Data[0] == 9 && out.Perm == 0o600, "an object outside the destination changed")
	vreach("done")
}

var _ = time.Second

func init() { verifHarnesses["HConfine"] = HConfine }
