package receiver

import (
	"time"

	"github.com/gokrazy/rsync/internal/vfsx"
)

func wholeFileStream(idx int32, data []byte, seed int32) []byte {
	var in []byte
	in = putI32(in, idx)
	in = putI32(in, 0)
	in = putI32(in, 0)
	in = putI32(in, 0)
	in = putI32(in, 0)
	if len(data) > 0 {
		in = putI32(in, int32(len(data)))
		in = append(in, data...)
	}
	in = putI32(in, 0)
	return append(in, wholeSum(seed, data)...)
}

// HAtomicSession (C04): a two-file session (file a replaces an existing file, file b is
// new) whose stream is cut at an arbitrary offset, or whose second file arrives damaged.
// At every file-system event, and at the end, each listed path holds its complete old
// content (or is absent) or its complete new content; temporary files are gone when the
// receiver returns an error.
func HAtomicSession() {
	cut := vparam("cut")
	fsys := vfsx.New()
	defer fsys.Cleanup()
	oldA := nd_bytes(2)
	fsys.Add(&vfsx.Node{Name: "a", Kind: vfsx.KReg, Perm: 0o644, Data: oldA})
	newA, newB := nd_bytes(2), nd_bytes(1)
	seed := nd_i32()
	var in []byte
	sa := wholeFileStream(0, newA, seed)
	sb := wholeFileStream(1, newB, seed)
	damagedA := false
	damagedB := false
	if vparam("first") == 1 && nd_bool() {
		// flip one bit of the FIRST file's literal data or trailer; the second file is good
		pos := 24 + nd_range(0, 1)
		if k := nd_range(0, 16); k > 0 {
			pos = 29 + k
		}
		sa[pos] ^= 1 << uint(nd_range(0, 7))
		damagedA = true
		vreach("damaged-first")
	}
	in = append(in, sa...)
	if !damagedA && nd_bool() {
		damagedB = true
		// flip one bit of the second file's literal byte or of its checksum trailer
		// (damaged token words are C03's subject; under the ideal-hash model a damaged
		// length field could be "repaired" by a freely chosen digest value)
		pos := 24
		if k := nd_range(0, 16); k > 0 {
			pos = 28 + k
		}
		sb[pos] ^= 1 << uint(nd_range(0, 7))
		vreach("damaged")
	}
	in = append(in, sb...)
	in = putI32(in, -1)
	in = putI32(in, -1)
	if cut >= 0 && cut < len(in) {
		in = in[:cut]
	}
	conn := newVconn(in)
	rt := newRecvTransfer(fsys, conn, seed, &TransferOpts{PreservePerms: nd_bool(), PreserveTimes: nd_bool()})
	fl := []*File{
		{Name: "a", Length: 2, Mode: 0o100644, ModTime: time.Unix(int64(nd_i32()), 0)},
		{Name: "b", Length: 1, Mode: 0o100600, ModTime: time.Unix(int64(nd_i32()), 0)},
	}
	okA := func(n vfsx.Node) bool {
		return n.Kind == vfsx.KReg && (bytesEq(n.Data, oldA) || bytesEq(n.Data, newA))
	}
	okB := func(n vfsx.Node) bool {
		return n.Kind == vfsx.KAbsent || (n.Kind == vfsx.KReg && bytesEq(n.Data, newB))
	}
	if vsymbolic() {
		fsys.OnEvent = func(fs *vfsx.FS, ev vfsx.Event) {
			vassert(okA(fs.Get("a")), "file a is neither its complete old nor its complete new content after an event")
			vassert(okB(fs.Get("b")), "file b is neither absent nor its complete new content after an event")
			if (ev.Op == "write" || ev.Op == "open") && ev.Mutates {
				vassert(ev.Path != "a" && ev.Path != "b", "data in progress written at a listed path")
			}
		}
	}
	err := rt.RecvFiles(fl)
	fsys.OnEvent = nil
	if (damagedA || damagedB) && cut < 0 {
		vassert(err != nil, "a session with a damaged file was reported as successful")
	}
	if damagedA {
		vassert(bytesEq(fsys.Get("a").Data, oldA), "a damaged file replaced the destination")
	}
	vassert(okA(fsys.Get("a")), "file a mixed or partial at the end")
	vassert(okB(fsys.Get("b")), "file b mixed or partial at the end")
	if err != nil {
		if vsymbolic() {
			vassert(countOp(fsys, "cleanup") == countOp(fsys, "create")-countOp(fsys, "rename"), "a temporary file was left behind after an error")
		}
		for _, n := range fsys.Names() {
			vassert(n == "a" || n == "b", "stray entry (temporary file) left in the destination after an error")
		}
		vreach("error")
		return
	}
	vassert(bytesEq(fsys.Get("a").Data, newA), "success but file a is not the new content")
	vassert(fsys.Get("b").Kind == vfsx.KReg, "success but file b is missing")
	vreach("success")
}

// HAtomicSymlink (C04): replacing an existing symlink (or creating a new one) is a single
// replace event of the model - never a removal followed by a creation.
func HAtomicSymlink() {
	fsys := vfsx.New()
	defer fsys.Cleanup()
	had := nd_bool()
	oldT := symTarget(1)
	if had {
		fsys.Add(&vfsx.Node{Name: "l", Kind: vfsx.KLink, Perm: 0o777, Target: oldT})
	}
	newT := symTarget(1)
	conn := newVconn(nil)
	rt := newRecvTransfer(fsys, conn, 0, &TransferOpts{PreserveLinks: true, PreservePerms: nd_bool(), PreserveTimes: nd_bool()})
	f := &File{Name: "l", Mode: 0o120777, LinkTarget: newT, ModTime: time.Unix(0, 0)}
	if vsymbolic() {
		fsys.OnEvent = func(fs *vfsx.FS, ev vfsx.Event) {
			n := fs.Get("l")
			if had {
				vassert(n.Kind == vfsx.KLink, "the symlink vanished during its replacement")
				vassert(n.Target == oldT || n.Target == newT, "symlink target is neither the old nor the new one")
			} else {
				vassert(n.Kind == vfsx.KAbsent || (n.Kind == vfsx.KLink && n.Target == newT), "partial symlink")
			}
			vassert(ev.Op != "remove" && ev.Op != "removeall", "symlink replaced by remove + create")
		}
	}
	err := rt.recvGenerator(0, f)
	fsys.OnEvent = nil
	vassert(err == nil, "symlink creation failed")
	n := fsys.Get("l")
	vassert(n.Kind == vfsx.KLink && n.Target == newT, "symlink does not point to the new target")
	vreach("linked")
}

func init() {
	verifHarnesses["HAtomicSession"] = HAtomicSession
	verifHarnesses["HAtomicSymlink"] = HAtomicSymlink
}
