package receiver

import (
	"github.com/gokrazy/rsync/internal/vfsx"
)

// HRecvScript (C02-R): for any basis and any valid token stream (literal runs of any
// chunking, block references in any order), the receiver commits exactly the bytes
// the stream denotes.
func HRecvScript() {
	m, b, k := vparam("m"), vparam("b"), vparam("k")
	fsys := vfsx.New()
	defer fsys.Cleanup()
	basis := nd_bytes(m)
	fsys.Add(&vfsx.Node{Name: "f", Kind: vfsx.KReg, Perm: 0o644, Data: basis})
	seed := nd_i32()
	count := (m + b - 1) / b
	rem := m % b

	var in []byte
	in = putI32(in, 0) // file index
	in = putI32(in, int32(count))
	in = putI32(in, int32(b))
	in = putI32(in, 16)
	in = putI32(in, int32(rem))
	var denoted []byte
	for t := 0; t < k; t++ {
		if count > 0 && nd_bool() {
			// block reference with a symbolic index
			i := nd_range(0, count-1)
			in = putI32(in, int32(-(i + 1)))
			l := b
			if i == count-1 && rem != 0 {
				l = rem
			}
			denoted = append(denoted, basis[i*b:i*b+l]...)
			vreach("blockref")
		} else {
			ll := nd_range(1, 3)
			lit := nd_bytes(ll)
			in = putI32(in, int32(ll))
			in = append(in, lit...)
			denoted = append(denoted, lit...)
			vreach("literal")
		}
	}
	in = putI32(in, 0)
	in = append(in, wholeSum(seed, denoted)...)
	in = putI32(in, -1)
	in = putI32(in, -1)
	conn := newVconn(in)
	rt := newRecvTransfer(fsys, conn, seed, &TransferOpts{PreservePerms: true})
	fl := []*File{{Name: "f", Length: int64(len(denoted)), Mode: 0o100644}}
	err := rt.RecvFiles(fl)
	vassert(err == nil, "RecvFiles failed on a valid token stream")
	if err != nil {
		return
	}
	got := fsys.Get("f")
	vassert(got.Kind == vfsx.KReg, "destination is not a regular file after success")
	vassert(bytesEq(got.Data, denoted), "committed bytes differ from what the token stream denotes")
	vassert(conn.pos == len(in), "receiver did not consume exactly the stream")
	vreach("end")
}

// HRecvArbitrary (C03/C04): the data segment is adversarial. Header fields, every token
// (literal runs with arbitrary bytes, block references with arbitrary - also invalid -
// indices, premature end), the trailer and the basis are symbolic; the stream may end
// anywhere. Whatever it is, the destination path is replaced only by content whose
// whole-file checksum (ideal-hash model) equals the received trailer; on error nothing
// is renamed and the temporary file is cleaned up; data in progress never touches the
// destination path.
func HRecvArbitrary() {
	m, k, cut := vparam("m"), vparam("k"), vparam("cut")
	fsys := vfsx.New()
	defer fsys.Cleanup()
	var basis []byte
	have := m >= 0
	if have {
		basis = nd_bytes(m)
		fsys.Add(&vfsx.Node{Name: "f", Kind: vfsx.KReg, Perm: 0o644, Data: basis})
	}
	seed := nd_i32()
	var in []byte
	// header fields stay symbolic (small, possibly inconsistent values; invalid ones included)
	for i := 0; i < 4; i++ {
		v := nd_i32()
		vassume(v >= -1)
		vassume(v <= 3)
		in = putI32(in, v)
	}
	for t := 0; t < k; t++ {
		switch nd_range(0, 2) {
		case 0:
			ll := nd_range(1, 2)
			in = putI32(in, int32(ll))
			in = append(in, nd_bytes(ll)...)
		case 1:
			r := nd_i32() // block reference 0..4 (may be out of range)
			vassume(r <= -1)
			vassume(r >= -5)
			in = putI32(in, r)
		case 2:
			in = putI32(in, 0)
		}
	}
	in = putI32(in, 0)
	in = append(in, nd_bytes(16)...)
	if cut >= 0 && cut < len(in) {
		in = in[:cut] // connection lost after cut bytes
	}
	conn := newVconn(in)
	rt := newRecvTransfer(fsys, conn, seed, &TransferOpts{PreservePerms: true})
	fl := []*File{{Name: "f", Length: 0, Mode: 0o100644}}

	// C04 event-prefix invariant: after every event other than the final rename the
	// listed path still holds its old content in full (or is still absent).
	renamed := false
	if vsymbolic() {
		fsys.OnEvent = func(fs *vfsx.FS, ev vfsx.Event) {
			if ev.Op == "rename" {
				renamed = true
			}
			if renamed {
				return
			}
			if ev.Op == "write" || ev.Op == "open" {
				if ev.Path == "f" && ev.Mutates {
					vassert(false, "data in progress written to / opened for writing at the destination path")
				}
			}
			{
				cur := fs.Get("f")
				if have {
					vassert(cur.Kind == vfsx.KReg, "destination vanished by a non-rename event")
					vassert(bytesEq(cur.Data, basis), "destination content changed by a non-rename event")
				} else {
					vassert(cur.Kind == vfsx.KAbsent, "destination appeared by a non-rename event")
				}
			}
		}
	}
	err := rt.recvFile1(fl[0])
	fsys.OnEvent = nil
	renames := 0
	if vsymbolic() {
		renames = countOp(fsys, "rename")
	}
	got := fsys.Get("f")
	if err != nil {
		vreach("error")
		if vsymbolic() {
			vassert(renames == 0, "rename happened although the transfer of the file failed")
			vassert(countOp(fsys, "cleanup") == countOp(fsys, "create"), "temporary file not cleaned up on error")
		}
		if have {
			vassert(got.Kind == vfsx.KReg, "destination vanished although the transfer failed")
			vassert(bytesEq(got.Data, basis), "destination changed although the transfer failed")
		} else {
			vassert(got.Kind == vfsx.KAbsent, "destination created although the transfer failed")
		}
		return
	}
	vreach("commit")
	vassert(got.Kind == vfsx.KReg, "no regular file after success")
	vassert(conn.pos >= 16+4, "success without reading a trailer")
	trailer := in[conn.pos-16 : conn.pos]
	vassert(bytesEq(trailer, wholeSum(seed, got.Data)), "committed content does not match the received whole-file checksum")
	if vsymbolic() {
		vassert(renames == 1, "exactly one rename on success")
	}
	if len(got.Data) > 0 {
		vreach("commit-nonempty")
	}
}
