package receiver

import (
	"github.com/gokrazy/rsync/internal/vfsx"
)

func symNameByte() byte {
	c := nd_u8()
	vassume(c != 0)
	vassume(c != '/')
	vassume(c != '.')
	return c
}

func symMode() int32 {
	perm := int32(nd_u16()) & 0o777
	switch nd_range(0, 6) {
	case 0:
		return perm | 0o100000
	case 1:
		return perm | 0o040000
	case 2:
		return perm | 0o120000
	case 3:
		return perm | 0o010000
	case 4:
		return perm | 0o140000
	case 5:
		return perm | 0o020000
	}
	return perm | 0o060000
}

// HFlistDecode (C15-D): every valid protocol-27 encoding of a list of k entries - with
// the sender's liberties (name-prefix compression, one- or four-byte name lengths,
// "same as previous" flags, 32/64-bit length forms) chosen symbolically - is decoded
// by the real receiver into exactly the entries sent, in bytewise name order.
func HFlistDecode() {
	k := vparam("k")
	var o refOpts
	if om := vparam("opts"); om >= 0 {
		o = refOpts{Uid: om&1 != 0, Gid: om&2 != 0, Devices: om&4 != 0, Specials: om&4 != 0, Links: om&8 != 0, Checksum: om&16 != 0}
		if om&32 != 0 {
			o.Specials = !o.Devices
		}
	} else {
		o = refOpts{Uid: nd_bool(), Gid: nd_bool(), Devices: nd_bool(), Links: nd_bool(), Checksum: nd_bool()}
		o.Specials = nd_bool()
	}
	var ents []refEntry
	var wire []byte
	var prev refEntry
	var lastRdev int32
	for i := 0; i < k; i++ {
		var e refEntry
		var c refChoice
		if i > 0 && nd_bool() {
			c.SameName = nd_range(1, len(prev.Name))
			vreach("samename")
		}
		e.Name = prev.Name[:c.SameName] + string([]byte{symNameByte()})
		for _, p := range ents {
			vassume(p.Name != e.Name)
		}
		lean := i < k-1 // earlier entries of a longer list take fewer liberties
		e.Length = nd_i64()
		vassume(e.Length >= 0)
		e.Mtime = nd_i32()
		if lean {
			e.Mode = int32(nd_u16())&0o777 | []int32{0o100000, 0o120000, 0o020000, 0o040000}[nd_range(0, 3)]
		} else {
			c.LongName = nd_bool()
			c.LongForm = nd_bool()
			e.Mode = symMode()
		}
		e.Uid, e.Gid, e.Rdev = nd_i32(), nd_i32(), nd_i32()
		// link target: 2 arbitrary bytes on the last entry (covers "a/", "./", "//", ".."), 1 before
		if lean {
			e.Target = nd_string(1)
		} else {
			e.Target = nd_string(2)
		}
		copy(e.Sum[:], nd_bytes(16))
		if i > 0 {
			// "same as previous" liberties; the mask is concrete (instance parameter) or symbolic
			sm := vparam("same")
			pick := func(bit int) bool {
				if sm >= 0 {
					return sm&bit != 0
				}
				return nd_bool()
			}
			if pick(1) {
				c.SameMode = true
				e.Mode = prev.Mode
			}
			if pick(2) {
				c.SameTime = true
				e.Mtime = prev.Mtime
			}
			if pick(4) {
				c.SameUid = true
				e.Uid = prev.Uid
			}
			if pick(8) {
				c.SameGid = true
				e.Gid = prev.Gid
			}
			if pick(16) {
				// protocol < 28: the sender's "last device number" is reset to 0 by every
				// non-device entry (flist.c: else if (protocol_version < 28) rdev = MAKEDEV(0, 0))
				c.SameRdev = true
				e.Rdev = lastRdev
			}
		}
		if o.hasRdev(e.Mode) {
			lastRdev = e.Rdev
		} else {
			lastRdev = 0
		}
		if !lean {
			c.TopDir = nd_bool()
		}
		wire = refEncodeEntry(wire, &e, &prev, c, o)
		ents = append(ents, e)
		prev = e
	}
	ioerr := int32(nd_range(0, 1))
	wire = refEncodeTail(wire, o, ioerr)
	wire = append(wire, 0xAA) // sentinel: must not be consumed

	fsys := vfsx.New()
	defer fsys.Cleanup()
	conn := newVconn(wire)
	rt := newRecvTransfer(fsys, conn, 0, &TransferOpts{
		PreserveUid: o.Uid, PreserveGid: o.Gid, PreserveDevices: o.Devices, PreserveSpecials: o.Specials, PreserveLinks: o.Links, AlwaysChecksum: o.Checksum,
	})
	fl, err := rt.ReceiveFileList()
	vassert(err == nil, "a valid protocol-27 file list was rejected")
	if err != nil {
		return
	}
	vassert(conn.pos == len(wire)-1, "decoder did not consume exactly the encoded list")
	vassert(len(fl) == k, "number of decoded entries")
	vassert(rt.IOErrors == ioerr, "I/O error word")
	// expected order: bytewise by name
	for i := 1; i < len(ents); i++ {
		for j := i; j > 0 && ents[j].Name < ents[j-1].Name; j-- {
			ents[j], ents[j-1] = ents[j-1], ents[j]
		}
	}
	for i := range ents {
		e, f := ents[i], fl[i]
		vassert(f.Name == e.Name, "name / order")
		vassert(f.Length == e.Length, "length")
		vassert(f.ModTime.Unix() == int64(e.Mtime), "mtime")
		vassert(f.Mode == e.Mode, "mode")
		if o.Uid {
			vassert(f.Uid == e.Uid, "uid")
		}
		if o.Gid {
			vassert(f.Gid == e.Gid, "gid")
		}
		if o.hasRdev(e.Mode) {
			vassert(f.Rdev == e.Rdev, "rdev")
			vreach("rdev")
		}
		if o.Links && e.Mode&0o170000 == 0o120000 {
			vassert(f.LinkTarget == e.Target, "link target")
			vreach("target")
		}
		if o.Checksum {
			vassert(bytesEq(f.Checksum[:], e.Sum[:]), "checksum")
		}
	}
	vreach("done")
}

func init() { verifHarnesses["HFlistDecode"] = HFlistDecode }
