package receiver

import (
	"time"

	"github.com/gokrazy/rsync/internal/vfsx"
)

func symName() string {
	c := nd_u8()
	vassume(c >= 'a')
	vassume(c <= 'e')
	return string([]byte{c})
}

// HDelete (C09): destination tree = top-level entries with symbolic one-letter names
// (files, directories or symlinks to a directory; a directory may hold children with
// symbolic names); the
// sender's list is "." plus an arbitrary subset of those entries plus one name that
// does not exist locally. After the delete pass exactly the unlisted entries are gone
// (directories with their subtrees) - unless the sender reported I/O errors or this
// is a dry run, in which case nothing is removed.
func HDelete() {
	top, sub := vparam("top"), vparam("sub")
	fsys := vfsx.New()
	defer fsys.Cleanup()
	type ent struct {
		name   string
		isDir  bool
		isLink bool
		listed bool
		parent int // index of parent entry, -1 for top level
	}
	var ents []ent
	for i := 0; i < top; i++ {
		n := symName()
		for _, e := range ents {
			if e.parent == -1 {
				vassume(e.name != n)
			}
		}
		kind := nd_range(0, 2) // file, directory, symlink to a directory
		isDir := kind == 1
		ents = append(ents, ent{name: n, isDir: isDir, isLink: kind == 2, listed: nd_bool(), parent: -1})
		idx := len(ents) - 1
		if isDir {
			fsys.Add(&vfsx.Node{Name: n, Kind: vfsx.KDir, Perm: 0o755})
			var kids []string
			for j := 0; j < sub; j++ {
				k := symName()
				for _, o := range kids {
					vassume(o != k)
				}
				kids = append(kids, k)
				full := n + "/" + k
				fsys.Add(&vfsx.Node{Name: full, Kind: vfsx.KReg, Perm: 0o644, Data: []byte{7}})
				// a child can only be listed if its directory is
				l := nd_bool()
				if !ents[idx].listed {
					l = false
				}
				ents = append(ents, ent{name: full, listed: l, parent: idx})
			}
		} else if kind == 2 {
			// a symlink is an entry of its own, whatever it points to
			fsys.Add(&vfsx.Node{Name: n, Kind: vfsx.KLink, Perm: 0o777, Target: "."})
		} else {
			fsys.Add(&vfsx.Node{Name: n, Kind: vfsx.KReg, Perm: 0o644, Data: []byte{9}})
		}
	}
	fl := []*File{{Name: ".", Mode: 0o040755, ModTime: time.Unix(0, 0)}}
	for _, e := range ents {
		if e.listed {
			mode := int32(0o100644)
			if e.isDir {
				mode = 0o040755
			}
			if e.isLink {
				mode = 0o120777
			}
			fl = append(fl, &File{Name: e.name, Mode: mode, ModTime: time.Unix(0, 0)})
		}
	}
	// one listed name that does not exist at the destination
	fl = append(fl, &File{Name: "zz", Mode: 0o100644, ModTime: time.Unix(0, 0)})
	sortFileList(fl)

	dry := nd_bool()
	ioerr := int32(nd_range(0, 1))
	conn := newVconn(nil)
	rt := newRecvTransfer(fsys, conn, 0, &TransferOpts{DeleteMode: true, DryRun: dry, PreserveTimes: nd_bool(), PreservePerms: nd_bool()})
	rt.IOErrors = ioerr
	err := rt.deleteFiles(fl)
	vassert(err == nil, "delete pass failed")
	active := !dry && ioerr == 0
	for _, e := range ents {
		gone := fsys.Get(e.name).Kind == vfsx.KAbsent
		wantGone := false
		if active {
			if !e.listed {
				wantGone = true
			}
			if e.parent >= 0 && !ents[e.parent].listed {
				wantGone = true
			}
		}
		if wantGone {
			vassert(gone, "an extraneous entry survived the delete pass")
		} else {
			vassert(!gone, "an entry that must be kept was deleted")
		}
		if gone {
			vreach("deleted")
		} else {
			vreach("kept")
		}
	}
	if vsymbolic() {
		vassert(fsys.AmbientCount() == 0, "delete pass used an ambient (non-root) file-system call")
	}
	vreach("done")
}

func init() { verifHarnesses["HDelete"] = HDelete }

// HFindInList (C09): membership test by binary search agrees with plain membership for
// every sorted list of k names of 0..2 arbitrary bytes.
func HFindInList() {
	k := vparam("k")
	var fl []*File
	var names []string
	for i := 0; i < k; i++ {
		n := nd_string(nd_range(0, 2))
		names = append(names, n)
		fl = append(fl, &File{Name: n})
	}
	sortFileList(fl)
	q := nd_string(nd_range(0, 2))
	member := false
	for _, n := range names {
		if n == q {
			member = true
		}
	}
	vassert(findInFileList(fl, q) == member, "findInFileList disagrees with list membership")
	if member {
		vreach("member")
	} else {
		vreach("nonmember")
	}
}

func init() { verifHarnesses["HFindInList"] = HFindInList }
