package receiver

import (
	"time"

	"github.com/gokrazy/rsync/internal/vfsx"
	"github.com/mmcloughlin/md4"
)

func plainSum(data []byte) []byte {
	h := md4.New()
	h.Write(data)
	return h.Sum(nil)
}

// HUpdateRule (C12): the generator requests a regular file iff the update rule says so.
// Destination: absent | regular (size m, symbolic content, symbolic mtime incl. nanoseconds)
// | empty directory | symlink. List entry: symbolic length, mtime (int32 seconds),
// checksum. Options -c -I -t -n -p symbolic.
func HUpdateRule() {
	m := vparam("m")
	fsys := vfsx.New()
	defer fsys.Cleanup()
	kind := nd_range(0, 3)
	dstData := nd_bytes(m)
	// seconds: int32 range, or (narrow instances) a few bits around zero so that real
	// time arithmetic (multiplication/division by 1e9) stays decidable for the solver
	secbits := vparam("secbits")
	symSec := func() int64 {
		v := int64(nd_i32())
		if secbits > 0 {
			lim := int64(1) << uint(secbits-1)
			vassume(v >= -lim)
			vassume(v < lim)
		}
		return v
	}
	dsec := symSec()
	dnsec := int64(nd_u32())
	vassume(dnsec < 1000000000)
	switch kind {
	case 1:
		fsys.Add(&vfsx.Node{Name: "f", Kind: vfsx.KReg, Perm: 0o644, Data: dstData, Sec: dsec, Nsec: dnsec})
	case 2:
		fsys.Add(&vfsx.Node{Name: "f", Kind: vfsx.KDir, Perm: 0o755, Sec: dsec, Nsec: dnsec})
	case 3:
		fsys.Add(&vfsx.Node{Name: "f", Kind: vfsx.KLink, Perm: 0o777, Target: "t"})
	}
	c, ign, dry := nd_bool(), nd_bool(), nd_bool()
	opts := &TransferOpts{AlwaysChecksum: c, IgnoreTimes: ign, DryRun: dry, PreserveTimes: nd_bool(), PreservePerms: nd_bool()}
	conn := newVconn(nil)
	rt := newRecvTransfer(fsys, conn, nd_i32(), opts)
	ssec := symSec()
	f := &File{Name: "f", Length: nd_i64(), ModTime: time.Unix(ssec, 0), Mode: 0o100644}
	if nd_bool() {
		// the sender's checksum of identical content (computed, so that native replays agree)
		copy(f.Checksum[:], plainSum(dstData))
	} else {
		copy(f.Checksum[:], nd_bytes(16))
	}

	err := rt.recvGenerator(0, f)
	vassert(err == nil, "generator failed in a situation the update rule covers")
	if err != nil {
		return
	}
	out := conn.out
	requested := len(out) >= 4
	if requested {
		vassert(getI32(out, 0) == 0, "requested index")
	}
	// the update rule, written from the property statement
	want := false
	switch {
	case kind != 1: // missing or not a regular file
		want = true
	case int64(m) != f.Length:
		want = true
	case c:
		want = !bytesEq(plainSum(dstData), f.Checksum[:])
	case ign:
		want = true
	default:
		want = dsec != ssec
	}
	vassert(requested == want, "request decision differs from the update rule")
	if !requested {
		vassert(len(out) == 0, "bytes written for a skipped file")
		vreach("skip")
	} else {
		vreach("request")
		if dry {
			vassert(len(out) == 4, "dry run: only the index may be written")
		} else {
			vassert(len(out) >= 20, "request without a checksum header")
		}
	}
}

// HIdempotent (C12): the state left by a successful transfer with -t makes the very
// next generator run skip the file (size = bytes sent, mtime = list mtime).
func HIdempotent() {
	n := vparam("n")
	fsys := vfsx.New()
	defer fsys.Cleanup()
	data := nd_bytes(n)
	seed := nd_i32()
	ssec := int64(nd_i32())
	var in []byte
	in = putI32(in, 0)
	in = putI32(in, 0)
	in = putI32(in, 0)
	in = putI32(in, 0)
	if n > 0 {
		in = putI32(in, int32(n))
		in = append(in, data...)
	}
	in = putI32(in, 0)
	in = append(in, wholeSum(seed, data)...)
	conn := newVconn(in)
	c := nd_bool()
	opts := &TransferOpts{PreserveTimes: true, PreservePerms: nd_bool(), AlwaysChecksum: c}
	rt := newRecvTransfer(fsys, conn, seed, opts)
	f := &File{Name: "f", Length: int64(n), ModTime: time.Unix(ssec, 0), Mode: 0o100644}
	copy(f.Checksum[:], plainSum(data))
	err := rt.recvFile1(f)
	vassert(err == nil, "transfer failed")
	if err != nil {
		return
	}
	// second run: nothing may be requested
	conn2 := newVconn(nil)
	rt2 := newRecvTransfer(fsys, conn2, seed, opts)
	f2 := &File{Name: "f", Length: int64(n), ModTime: time.Unix(ssec, 0), Mode: 0o100644}
	copy(f2.Checksum[:], plainSum(data))
	err = rt2.recvGenerator(0, f2)
	vassert(err == nil, "second generator run failed")
	vassert(len(conn2.out) == 0, "an immediately repeated sync requested the file again")
	vreach("noop")
}

func init() {
	verifHarnesses["HUpdateRule"] = HUpdateRule
	verifHarnesses["HIdempotent"] = HIdempotent
}
