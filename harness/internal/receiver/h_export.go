package receiver

import "github.com/gokrazy/rsync/internal/vfsx"

// VerifNewTransfer / VerifGenerate / VerifReceive expose the generator and receiver stages
// to cross-package harnesses.
func VerifNewTransfer(fsys *vfsx.FS, seed int32, opts *TransferOpts) (*Transfer, func() []byte) {
	conn := newVconn(nil)
	rt := newRecvTransfer(fsys, conn, seed, opts)
	return rt, func() []byte { return conn.out }
}

func VerifGenerate(rt *Transfer, fl []*File) error { return rt.GenerateFiles(fl) }

func VerifReceive(rt *Transfer, fl []*File, in []byte) (consumedAll bool, err error) {
	c := newVconn(in)
	rt.Conn.Reader = c
	err = rt.RecvFiles(fl)
	return c.pos == len(in), err
}
