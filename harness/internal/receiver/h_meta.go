package receiver

import (
	"time"

	"github.com/gokrazy/rsync/internal/vfsx"
)

func kindOfMode(mode int32) vfsx.Kind {
	switch mode & 0o170000 {
	case 0o100000:
		return vfsx.KReg
	case 0o040000:
		return vfsx.KDir
	case 0o120000:
		return vfsx.KLink
	case 0o010000:
		return vfsx.KFifo
	case 0o140000:
		return vfsx.KSock
	case 0o020000:
		return vfsx.KChr
	case 0o060000:
		return vfsx.KBlk
	}
	return vfsx.KAbsent
}

// HMetadata (C11-b): one entry of a valid type is synchronised (generator, then the
// receiver if the file was requested, then the directory touch-up) over an arbitrary
// prior object. The post-state must carry the source's type and, per option, its
// permissions, mtime, link target, device number, owner and group.
func HMetadata() {
	n := vparam("n")
	fsys := vfsx.New()
	defer fsys.Cleanup()
	pre := symPre(fsys, "f", vparam("m"), 1)
	// a directory in the way must be empty to be replaceable: no children are added
	opts := allOpts()
	opts.DeleteMode = false
	opts.AlwaysChecksum = false
	f := symEntry("f", 1)
	srcKind := kindOfMode(f.Mode)
	vassume(srcKind != vfsx.KAbsent)
	data := nd_bytes(n)
	f.Length = int64(n)
	seed := nd_i32()
	fl := []*File{f}

	genConn := newVconn(nil)
	rt := newRecvTransfer(fsys, genConn, seed, opts)
	err := rt.recvGenerator(0, f)
	if err != nil {
		// The only admissible failure: a non-empty... (none here) or a symlink that cannot be opened etc.
		vreach("generror")
		vassert(pre.kind == vfsx.KDir || pre.kind == vfsx.KLink || srcKind != vfsx.KReg, "generator failed for a regular file over a replaceable object")
		return
	}
	requested := len(genConn.out) >= 4
	if requested {
		vassert(srcKind == vfsx.KReg, "a non-regular entry was requested from the sender")
		var in []byte
		in = putI32(in, 0)
		in = putI32(in, 0)
		in = putI32(in, 0)
		in = putI32(in, 0)
		in = putI32(in, 0)
		if n > 0 {
			in = putI32(in, int32(n))
			in = append(in, data...)
		}
		in = putI32(in, 0)
		in = append(in, wholeSum(seed, data)...)
		in = putI32(in, -1)
		in = putI32(in, -1)
		rt.Conn.Reader = newVconn(in)
		err = rt.RecvFiles(fl)
		vassert(err == nil, "receiver failed on a valid whole-file stream")
		if err != nil {
			return
		}
		vreach("transferred")
	}
	if rt.retouchDirPerms {
		err = rt.touchUpDirs(fl)
		vassert(err == nil, "touch-up failed")
		vreach("retouched")
	}
	got := fsys.Get("f")
	perm := uint32(f.Mode) & 0o777

	switch srcKind {
	case vfsx.KReg:
		vassert(got.Kind == vfsx.KReg, "regular entry did not end up as a regular file")
		if requested {
			vassert(bytesEq(got.Data, data), "content")
		}
		if opts.PreservePerms {
			vassert(got.Perm == perm, "-p: permissions differ from the source")
		} else if pre.kind == vfsx.KReg {
			vassert(got.Perm == pre.perm, "without -p an existing destination file must keep its permissions")
			vreach("kept-perms")
		}
		if opts.PreserveTimes {
			vassert(got.Sec == f.ModTime.Unix(), "-t: modification time differs from the source")
		}
	case vfsx.KDir:
		vassert(got.Kind == vfsx.KDir, "directory entry did not end up as a directory")
		if opts.PreservePerms {
			vassert(got.Perm == perm, "-p: directory permissions differ from the source")
		}
		if opts.PreserveTimes {
			vassert(got.Sec == f.ModTime.Unix(), "-t: directory modification time differs from the source")
		}
		vreach("dir")
	case vfsx.KLink:
		if opts.PreserveLinks {
			vassert(got.Kind == vfsx.KLink, "-l: symlink entry did not end up as a symlink")
			vassert(got.Target == f.LinkTarget, "-l: link target differs from the source")
			vreach("link")
		}
	default:
		// -D = --devices (character/block devices) + --specials (fifos, sockets)
		want := opts.PreserveDevices
		if srcKind == vfsx.KFifo || srcKind == vfsx.KSock {
			want = opts.PreserveSpecials
		}
		if want {
			vassert(got.Kind == srcKind, "-D: device/special entry has the wrong type")
			if srcKind == vfsx.KChr || srcKind == vfsx.KBlk {
				vassert(uint32(got.Rdev) == uint32(f.Rdev), "-D: device number differs from the source")
			}
			vreach("device")
		}
	}
	transferredType := got.Kind == srcKind
	if transferredType && srcKind != vfsx.KLink && vsymbolic() {
		// running as root in the model (os.Getuid() == 0)
		if opts.PreserveUid && (srcKind == vfsx.KReg || srcKind == vfsx.KDir) {
			vassert(got.Uid == uint32(f.Uid), "-o as root: owner differs from the source")
		}
		if opts.PreserveGid && (srcKind == vfsx.KReg || srcKind == vfsx.KDir) {
			vassert(got.Gid == uint32(f.Gid), "-g as root: group differs from the source")
		}
	}
	vreach("done")
}

var _ = time.Second

func init() { verifHarnesses["HMetadata"] = HMetadata }
