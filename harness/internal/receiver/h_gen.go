package receiver

import (
	"time"

	"github.com/gokrazy/rsync/internal/vfsx"
)

// preState places an arbitrary object at path name: kind 0 = absent.
type preObj struct {
	kind   vfsx.Kind
	perm   uint32
	uid    uint32
	gid    uint32
	sec    int64
	nsec   int64
	data   []byte
	target string
	rdev   uint64
}

func symPre(fsys *vfsx.FS, name string, dataLen, targetLen int) preObj {
	var p preObj
	p.kind = vfsx.Kind(nd_range(0, 7))
	p.perm = uint32(nd_u16()) & 0o777
	p.uid = nd_u32()
	p.gid = nd_u32()
	p.sec = int64(nd_i32())
	p.nsec = int64(nd_u32())
	vassume(p.nsec < 1000000000)
	switch p.kind {
	case vfsx.KAbsent:
		return p
	case vfsx.KReg:
		p.data = nd_bytes(dataLen)
	case vfsx.KLink:
		p.target = symTarget(targetLen)
		p.perm = 0o777
	case vfsx.KChr, vfsx.KBlk:
		p.rdev = uint64(nd_u32())
	}
	fsys.Add(&vfsx.Node{Name: name, Kind: p.kind, Perm: p.perm, Uid: p.uid, Gid: p.gid, Sec: p.sec, Nsec: p.nsec, Data: p.data, Target: p.target, Rdev: p.rdev})
	return p
}

func sameNode(a vfsx.Node, p preObj) bool {
	if a.Kind != p.kind {
		return false
	}
	if p.kind == vfsx.KAbsent {
		return true
	}
	ok := a.Perm == p.perm
	ok = ok && a.Uid == p.uid && a.Gid == p.gid
	if p.kind != vfsx.KLink {
		// (ownership and times of symlinks are not compared natively)
		ok = ok && a.Sec == p.sec
	}
	if p.kind == vfsx.KReg {
		ok = ok && bytesEq(a.Data, p.data)
	}
	if p.kind == vfsx.KLink {
		ok = ok && a.Target == p.target
	}
	return ok
}

func allOpts() *TransferOpts {
	return &TransferOpts{
		DeleteMode:       nd_bool(),
		PreserveGid:      nd_bool(),
		PreserveUid:      nd_bool(),
		PreserveLinks:    nd_bool(),
		PreservePerms:    nd_bool(),
		PreserveDevices:  nd_bool(),
		PreserveSpecials: nd_bool(),
		PreserveTimes:    nd_bool(),
		IgnoreTimes:      nd_bool(),
		AlwaysChecksum:   nd_bool(),
		Server:           nd_bool(),
	}
}

// symEntry is a list entry of arbitrary type and metadata.
func symEntry(name string, targetLen int) *File {
	f := &File{Name: name}
	f.Mode = int32(nd_range(0, 7))<<12 | int32(nd_u16())&0o777
	switch nd_range(0, 7) {
	case 0:
		f.Mode = f.Mode&0o777 | 0o100000 // regular
	case 1:
		f.Mode = f.Mode&0o777 | 0o040000 // directory
	case 2:
		f.Mode = f.Mode&0o777 | 0o120000 // symlink
	case 3:
		f.Mode = f.Mode&0o777 | 0o010000 // fifo
	case 4:
		f.Mode = f.Mode&0o777 | 0o140000 // socket
	case 5:
		f.Mode = f.Mode&0o777 | 0o020000 // char device
	case 6:
		f.Mode = f.Mode&0o777 | 0o060000 // block device
	default:
		// keep the arbitrary (possibly invalid) type bits chosen above
	}
	f.Length = int64(nd_u8())
	f.ModTime = time.Unix(int64(nd_i32()), 0)
	f.Uid = nd_i32()
	f.Gid = nd_i32()
	f.Rdev = nd_i32()
	f.LinkTarget = symTarget(targetLen)
	copy(f.Checksum[:], nd_bytes(16))
	return f
}

// HDryRun (C10): with DryRun set, generator, receiver, delete pass and directory
// touch-up leave every destination object untouched, for an entry of any type, any
// prior object at that path and any other options.
func HDryRun() {
	fsys := vfsx.New()
	defer fsys.Cleanup()
	pre := symPre(fsys, "f", vparam("m"), 1)
	// an extraneous entry that --delete would remove
	fsys.Add(&vfsx.Node{Name: "x", Kind: vfsx.KReg, Perm: 0o600, Data: []byte{1}})
	fsys.Add(&vfsx.Node{Name: "xd", Kind: vfsx.KDir, Perm: 0o700})
	fsys.Add(&vfsx.Node{Name: "xd/y", Kind: vfsx.KReg, Perm: 0o600, Data: []byte{2}})
	opts := allOpts()
	opts.DryRun = true
	f := symEntry("f", 1)
	if pre.kind == vfsx.KReg && nd_bool() {
		// the checksum of identical content, computed (so that native replays agree with the model)
		copy(f.Checksum[:], plainSum(pre.data))
	}
	fl := []*File{{Name: ".", Mode: 0o040755, ModTime: time.Unix(0, 0)}, f}
	// the sender answers a dry-run request with the index only
	var in []byte
	in = putI32(in, 1)
	in = putI32(in, -1)
	in = putI32(in, -1)
	conn := newVconn(in)
	rt := newRecvTransfer(fsys, conn, nd_i32(), opts)
	var err error
	if opts.DeleteMode {
		err = rt.deleteFiles(fl)
		vassert(err == nil, "delete pass failed in dry run")
	}
	err = rt.GenerateFiles(fl)
	vassert(err == nil, "generator failed in dry run")
	err = rt.RecvFiles(fl)
	vassert(err == nil, "receiver failed in dry run")
	err = rt.touchUpDirs(fl)
	vassert(err == nil, "touch-up failed in dry run")
	if vsymbolic() {
		for _, ev := range fsys.Events {
			if ev.Mutates {
				vassert(false, "dry run performed a mutating file-system operation: "+ev.Op)
			}
			if ev.Ambient {
				vassert(false, "dry run performed an ambient file-system operation: "+ev.Op)
			}
		}
	}
	vassert(sameNode(fsys.Get("f"), pre), "dry run changed the destination entry")
	x := fsys.Get("x")
	vassert(x.Kind == vfsx.KReg, "dry run deleted an extraneous file")
	vassert(fsys.Get("xd").Kind == vfsx.KDir && fsys.Get("xd/y").Kind == vfsx.KReg, "dry run deleted an extraneous directory")
	vreach("done")
}

func init() {
	verifHarnesses["HDryRun"] = HDryRun
}
