package receiver

import (
	"github.com/gokrazy/rsync/internal/vfsx"
)

func symOpts() *TransferOpts {
	return &TransferOpts{
		PreserveUid:     nd_bool(),
		PreserveGid:     nd_bool(),
		PreserveLinks:   nd_bool(),
		PreserveDevices: nd_bool(),
		PreservePerms:   nd_bool(),
		PreserveTimes:   nd_bool(),
		AlwaysChecksum:  nd_bool(),
	}
}

// HHostileFlist (C08): ReceiveFileList on arbitrary bytes under arbitrary options.
func HHostileFlist() {
	L := vparam("L")
	fsys := vfsx.New()
	defer fsys.Cleanup()
	conn := newVconn(nd_bytes(L))
	rt := newRecvTransfer(fsys, conn, 0, symOpts())
	fl, err := rt.ReceiveFileList()
	if err != nil {
		vreach("error")
		return
	}
	if len(fl) > 0 {
		vreach("entries")
	}
	vreach("ok")
}

// HHostileEntry (C08): one file-list entry with arbitrary flags byte and arbitrary body.
func HHostileEntry() {
	L := vparam("L")
	fsys := vfsx.New()
	defer fsys.Cleanup()
	conn := newVconn(nd_bytes(L))
	rt := newRecvTransfer(fsys, conn, 0, symOpts())
	last := &File{Name: nd_string(vparam("last"))}
	f, err := rt.receiveFileEntry(uint16(nd_u8()), last)
	if err != nil {
		vreach("error")
		return
	}
	_ = f
	vreach("ok")
}

// HHostileIdList (C08): uid/gid lists on arbitrary bytes.
func HHostileIdList() {
	L := vparam("L")
	fsys := vfsx.New()
	defer fsys.Cleanup()
	conn := newVconn(nd_bytes(L))
	rt := newRecvTransfer(fsys, conn, 0, &TransferOpts{PreserveUid: true, PreserveGid: nd_bool()})
	_, _, err := rt.RecvIdList()
	if err != nil {
		vreach("error")
		return
	}
	vreach("ok")
}

// HHostileRecvFiles (C08): the receiver's file loop on arbitrary bytes (indices, headers, tokens).
func HHostileRecvFiles() {
	L := vparam("L")
	fsys := vfsx.New()
	defer fsys.Cleanup()
	fsys.Add(&vfsx.Node{Name: "a", Kind: vfsx.KReg, Perm: 0o644, Data: nd_bytes(2)})
	conn := newVconn(nd_bytes(L))
	rt := newRecvTransfer(fsys, conn, nd_i32(), &TransferOpts{PreservePerms: nd_bool(), DryRun: nd_bool()})
	fl := []*File{{Name: "a", Length: 2, Mode: 0o100644}, {Name: "b", Length: 0, Mode: 0o100644}}
	err := rt.RecvFiles(fl)
	if err != nil {
		vreach("error")
		return
	}
	vreach("ok")
}

func init() {
	verifHarnesses["HHostileFlist"] = HHostileFlist
	verifHarnesses["HHostileEntry"] = HHostileEntry
	verifHarnesses["HHostileIdList"] = HHostileIdList
	verifHarnesses["HHostileRecvFiles"] = HHostileRecvFiles
}
