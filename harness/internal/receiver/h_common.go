package receiver

import (
	"encoding/binary"
	"io"
	"time"

	"github.com/gokrazy/rsync/internal/progress"

	"github.com/gokrazy/rsync/internal/rsyncopts"
	"github.com/gokrazy/rsync/internal/rsyncos"
	"github.com/gokrazy/rsync/internal/rsyncwire"
	"github.com/gokrazy/rsync/internal/vfsx"
	"github.com/mmcloughlin/md4"
)

func noInfo(rsyncopts.InfoLevel, uint16) bool   { return false }
func noDebug(rsyncopts.DebugLevel, uint16) bool { return false }

func newRecvTransfer(fsys *vfsx.FS, conn *vconn, seed int32, opts *TransferOpts) *Transfer {
	opts.InfoGTE = noInfo
	opts.DebugGTE = noDebug
	dest := "/model"
	if p := fsys.RealPath(); p != "" {
		dest = p
	}
	return &Transfer{
		Logger:   vlogger{},
		Opts:     opts,
		Dest:     dest,
		DestRoot: fsys.Root("."),
		Env:      &rsyncos.Env{Stdout: io.Discard, Stderr: io.Discard},
		Conn:     &rsyncwire.Conn{Reader: conn, Writer: conn},
		Seed:     seed,
		Progress: progress.NewPrinter(io.Discard, time.Now),
	}
}

func bytesEq(a, b []byte) bool {
	if len(a) != len(b) {
		return false
	}
	var d byte
	for i := range a {
		d |= a[i] ^ b[i]
	}
	return d == 0
}

func wholeSum(seed int32, data []byte) []byte {
	h := md4.New()
	binary.Write(h, binary.LittleEndian, seed)
	h.Write(data)
	return h.Sum(nil)
}

func countOp(fsys *vfsx.FS, op string) int {
	c := 0
	for _, e := range fsys.Events {
		if e.Op == op {
			c++
		}
	}
	return c
}

var verifHarnesses = map[string]func(){
	"HRecvScript":    HRecvScript,
	"HRecvArbitrary": HRecvArbitrary,
}
