package rsyncwire

import (
	"bufio"
	"io"

	"github.com/gokrazy/rsync/internal/rsyncos"
)

func eqBytes(a, b []byte) bool {
	if len(a) != len(b) {
		return false
	}
	var d byte
	for i := range a {
		d |= a[i] ^ b[i]
	}
	return d == 0
}

// HMuxReader (C17): k frames with symbolic tags, lengths and payloads are read through
// the client's stack (MultiplexReader under a 256 KiB bufio.Reader under the counting
// reader) in chunks of symbolic size. What arrives must be the concatenation of the
// data payloads; info frames are transparent; an error/unknown frame fails the read.
func HMuxReader() {
	k := vparam("k")
	var raw, want []byte
	var errPayload []byte
	failKind := 0 // 0 none, 1 error frame, 2 unknown tag
	for i := 0; i < k; i++ {
		kind := nd_range(0, 3)
		ln := nd_range(0, 3)
		payload := nd_bytes(ln)
		code := byte(mplexBase)
		switch kind {
		case 0:
			code += MsgData
		case 1:
			code += MsgInfo
		case 2:
			code += MsgError
		case 3:
			code += 5 // a tag this implementation does not know
		}
		raw = append(raw, byte(ln), 0, 0, code)
		raw = append(raw, payload...)
		if failKind == 0 {
			switch kind {
			case 0:
				want = append(want, payload...)
			case 2:
				failKind = 1
				errPayload = payload
			case 3:
				failKind = 2
			}
		}
	}
	conn := newVconn(raw)
	mrd := &MultiplexReader{Env: &rsyncos.Env{Stderr: io.Discard}, Reader: conn}
	rd := bufio.NewReaderSize(mrd, 256*1024)
	c := &Conn{Reader: &CountingReader{R: rd}}
	var got []byte
	for len(got) < len(want) {
		rem := len(want) - len(got)
		sz := nd_range(1, min(4, rem))
		if sz == 1 && nd_bool() {
			b, err := c.ReadByte()
			vassert(err == nil, "ReadByte failed although data payload was outstanding")
			if err != nil {
				return
			}
			got = append(got, b)
			continue
		}
		buf := make([]byte, sz)
		_, err := io.ReadFull(c.Reader, buf)
		vassert(err == nil, "ReadFull failed although data payload was outstanding")
		if err != nil {
			return
		}
		got = append(got, buf...)
	}
	vassert(eqBytes(got, want), "delivered bytes differ from the concatenation of the data payloads")
	_, err := c.ReadByte()
	vassert(err != nil, "read beyond the last data payload succeeded")
	switch failKind {
	case 0:
		vassert(err == io.EOF, "end of stream not reported as EOF")
		vreach("eof")
	case 1:
		vassert(err != io.EOF, "error frame reported as plain EOF")
		if err != nil {
			vassert(err.Error() == string(errPayload), "error frame text is not the server's message")
		}
		vreach("errorframe")
	case 2:
		vassert(err != io.EOF, "unknown tag reported as plain EOF")
		vreach("unknowntag")
	}
	if len(want) > 0 {
		vreach("data")
	}
}

// HMuxBig (C17): frames at the size limit. A maximum-size data frame must be delivered
// whole (never the "not enough buffer space" panic); one byte more must be an error.
func HMuxBig() {
	delta := vparam("delta") // length = maxMessageSize + delta
	ln := maxMessageSize + delta
	pre := nd_range(0, 2) // info frames in front
	var raw []byte
	for i := 0; i < pre; i++ {
		raw = append(raw, 0, 0, 0, mplexBase+MsgInfo)
	}
	first := nd_u8()
	raw = append(raw, byte(ln), byte(ln>>8), byte(ln>>16), mplexBase+MsgData)
	body := make([]byte, ln)
	if ln > 0 {
		body[0] = first
	}
	raw = append(raw, body...)
	conn := newVconn(raw)
	mrd := &MultiplexReader{Env: &rsyncos.Env{Stderr: io.Discard}, Reader: conn}
	rd := bufio.NewReaderSize(mrd, 256*1024)
	c := &Conn{Reader: &CountingReader{R: rd}}
	b, err := c.ReadByte()
	if ln <= maxMessageSize {
		vassert(err == nil, "maximum-size frame rejected")
		vassert(b == first, "first payload byte")
		vreach("accepted")
	} else {
		vassert(err != nil, "oversized frame accepted")
		vreach("rejected")
	}
}

// HMuxInfoRun (C17): a run of N info frames in front of data must be transparent for
// both single-byte reads and ReadFull.
func HMuxInfoRun() {
	n := vparam("n")
	var raw []byte
	for i := 0; i < n; i++ {
		raw = append(raw, 0, 0, 0, mplexBase+MsgInfo)
	}
	v := nd_u8()
	raw = append(raw, 1, 0, 0, mplexBase+MsgData, v)
	conn := newVconn(raw)
	mrd := &MultiplexReader{Env: &rsyncos.Env{Stderr: io.Discard}, Reader: conn}
	rd := bufio.NewReaderSize(mrd, 256*1024)
	c := &Conn{Reader: &CountingReader{R: rd}}
	var b byte
	var err error
	if nd_bool() {
		b, err = c.ReadByte()
	} else {
		var buf [1]byte
		_, err = io.ReadFull(c.Reader, buf[:])
		b = buf[0]
	}
	vassert(err == nil, "a run of info frames made the read fail")
	vassert(b == v, "payload byte after info frames")
	vreach("ok")
}

// HMuxWriter (C17): every frame the writer emits is header (7+tag)<<24|len followed by
// the unchanged payload.
func HMuxWriter() {
	ln := vparam("len")
	var p []byte
	if ln <= 16 {
		p = nd_bytes(ln)
	} else {
		// large payloads (a file chunk): concrete zeros with symbolic first and last byte
		p = make([]byte, ln)
		p[0], p[ln-1] = nd_u8(), nd_u8()
	}
	tag := nd_u8()
	vassume(tag <= 2)
	conn := newVconn(nil)
	w := &MultiplexWriter{Writer: conn}
	n, err := w.WriteMsg(tag, p)
	vassert(err == nil, "WriteMsg failed")
	vassert(n == ln, "WriteMsg byte count")
	out := conn.out
	vassert(len(out) == 4+ln, "frame length")
	vassert(out[3] == mplexBase+tag, "tag byte")
	vassert(int(out[0])|int(out[1])<<8|int(out[2])<<16 == ln, "length field")
	if ln <= 16 {
		vassert(eqBytes(out[4:], p), "payload unchanged")
	} else if len(out) == 4+ln {
		vassert(out[4] == p[0] && out[4+ln-1] == p[ln-1], "payload unchanged (ends)")
	}
	vreach("ok")
}

func init() {
	verifHarnesses["HMuxReader"] = HMuxReader
	verifHarnesses["HMuxBig"] = HMuxBig
	verifHarnesses["HMuxInfoRun"] = HMuxInfoRun
	verifHarnesses["HMuxWriter"] = HMuxWriter
}

// HHostileMux (C08): arbitrary bytes as a multiplexed server stream.
func HHostileMux() {
	L := vparam("L")
	conn := newVconn(nd_bytes(L))
	mrd := &MultiplexReader{Env: &rsyncos.Env{Stderr: io.Discard}, Reader: conn}
	rd := bufio.NewReaderSize(mrd, 256*1024)
	c := &Conn{Reader: &CountingReader{R: rd}}
	for i := 0; i < 3; i++ {
		if _, err := c.ReadInt32(); err != nil {
			vreach("error")
			return
		}
	}
	vreach("ok")
}

func init() { verifHarnesses["HHostileMux"] = HHostileMux }
