package rsyncwire

import "bytes"

// HInt64RoundTrip: ReadInt64(WriteInt64(x)) == x and the byte form matches protocol 27.
func HInt64RoundTrip() {
	x := nd_i64()
	var buf bytes.Buffer
	c := &Conn{Writer: &buf, Reader: &buf}
	if err := c.WriteInt64(x); err != nil {
		vassert(false, "WriteInt64 failed")
		return
	}
	b := buf.Bytes()
	if x >= 0 && x <= 0x7fffffff {
		vassert(len(b) == 4, "short form is 4 bytes")
		vreach("short")
	} else {
		vassert(len(b) == 12, "long form is 12 bytes")
		vassert(b[0] == 0xff && b[1] == 0xff && b[2] == 0xff && b[3] == 0xff, "long form marker")
		vassert(b[4] == byte(x), "LE byte 0")
		vassert(b[11] == byte(x>>56), "LE byte 7")
		vreach("long")
	}
	y, err := c.ReadInt64()
	vassert(err == nil, "ReadInt64 failed")
	vassert(y == x, "round trip")
}

var verifHarnesses = map[string]func(){
	"HInt64RoundTrip": HInt64RoundTrip,
}
