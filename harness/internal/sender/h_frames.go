package sender

import (
	"github.com/gokrazy/rsync/internal/rsyncopts"
	"github.com/gokrazy/rsync/internal/rsyncwire"
)

// HSendFrames (C17, server side): the real SendFiles writes through the real
// MultiplexWriter, as a serving sender does after the seed, for one file whose size lies
// around one or two read chunks (256 KiB). mode 0: the receiver has no basis (whole-file
// path, sendFile); mode 1: the receiver offers one block that does not occur in the file
// (delta path, one long literal run). Every frame in the output must be a data frame of
// at most 256 KiB (the reader's limit and the client's buffer size), the frames must tile
// the output exactly, and the de-framed stream must be file index, checksum header,
// literal tokens that add up to the file, end token, 16-byte whole-file checksum and the
// two end-of-phase markers.
func HSendFrames() {
	mode := vparam("mode")
	size := vparam("size") + nd_range(-4, 1)
	data := make([]byte, size)
	if mode == 0 {
		data[0], data[size-1] = nd_u8(), nd_u8()
	} else {
		// concrete content for the search loop; 'x' blocks never match the all-zero file
		data[0], data[size-1] = 7, 9
	}
	var in []byte
	in = putI32(in, 0)
	if mode == 0 {
		in = putI32(in, 0)
		in = putI32(in, 700)
		in = putI32(in, 2)
		in = putI32(in, 0)
	} else {
		in = putI32(in, 1)
		in = putI32(in, 700)
		in = putI32(in, 2)
		in = putI32(in, 0)
		in = putI32(in, 0x12345678)
		in = append(in, 0xAB, 0xCD)
	}
	in = putI32(in, -1) // end of phase 1
	in = putI32(in, -1) // end of phase 2
	rd := newVconn(in)
	rec := newVconn(nil)
	st := newSenderTransfer(rd, nd_i32(), rsyncopts.VerifFlags{Server: true, Sender: true})
	st.Conn = &rsyncwire.Conn{Reader: rd, Writer: &rsyncwire.MultiplexWriter{Writer: rec}}
	fl := &fileList{Files: []file{{source: &oneFileSource{data: data}, path: "f", Wpath: "f", regular: true, Length: int64(size)}}}
	err := st.SendFiles(fl)
	vassert(err == nil, "sending a readable file failed")
	if err != nil {
		return
	}
	const maxFrame = 256 * 1024
	out := rec.out
	var plain []byte
	p := 0
	for p < len(out) {
		vassert(p+4 <= len(out), "truncated frame header")
		if p+4 > len(out) {
			return
		}
		ln := int(out[p]) | int(out[p+1])<<8 | int(out[p+2])<<16
		vassert(out[p+3] == 7, "server data must travel in data frames (tag 7)")
		vassert(ln <= maxFrame, "frame payload larger than the 256 KiB limit")
		vassert(p+4+ln <= len(out), "frame payload shorter than its header says")
		if p+4+ln > len(out) {
			return
		}
		plain = append(plain, out[p+4:p+4+ln]...)
		p += 4 + ln
	}
	// de-framed stream
	vassert(len(plain) >= 20, "stream too short")
	if len(plain) < 20 {
		return
	}
	vassert(getI32(plain, 0) == 0, "file index")
	q := 20
	got := 0
	var first, last byte
	for {
		vassert(q+4 <= len(plain), "token truncated")
		if q+4 > len(plain) {
			return
		}
		t := int(getI32(plain, q))
		q += 4
		if t == 0 {
			break
		}
		vassert(t > 0, "unexpected block reference")
		vassert(q+t <= len(plain), "literal run truncated")
		if t <= 0 || q+t > len(plain) {
			return
		}
		if got == 0 {
			first = plain[q]
		}
		last = plain[q+t-1]
		got += t
		q += t
	}
	vassert(got == size, "literal data does not add up to the file")
	vassert(first == data[0] && last == data[size-1], "payload changed in transit")
	vassert(len(plain) == q+16+8, "trailer: whole-file checksum and the two end-of-phase markers")
	if len(plain) == q+24 {
		vassert(getI32(plain, q+16) == -1 && getI32(plain, q+20) == -1, "end-of-phase markers")
	}
	vreach("done")
}

func init() { verifHarnesses["HSendFrames"] = HSendFrames }
