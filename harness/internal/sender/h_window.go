package sender

// HMapPtr (C01/C02, sender's read window): requests of the sizes the delta search makes
// (one block, a chunk, chunk + block + 1, chunk + 2 blocks + 1) at offsets around the
// window and alignment boundaries of a file larger than the 256 KiB window, one request
// or two in sequence (grow=1: the second request is larger than the default window). Every request that lies inside the file must succeed and return
// exactly the file's bytes at that range (spot-checked at both ends).
func HMapPtr() {
	size, calls, grow := vparam("size"), vparam("calls"), vparam("grow")
	const b = 700
	data := make([]byte, size)
	f := &vfile{data: data, info: &vinfo{name: "f", size: int64(size)}}
	ms := mapFile(f, int64(size), max(3*b, 256*1024), b)
	lens := []int{1, b, chunkSize, chunkSize + b + 1, chunkSize + 2*b + 1}
	bases := []int{0, 1024, 36000, 262144, size - (chunkSize + 2*b + 1), size}
	// choose all requests first and mark their end points; the file is static afterwards
	type req struct{ off, l int }
	var reqs []req
	for c := 0; c < calls; c++ {
		l := lens[nd_range(0, len(lens)-1)]
		if grow == 1 {
			// narrow instance: a small request first, then one larger than the default window,
			// so the window is enlarged while part of it must be kept
			if c == 0 {
				vassume(l <= b)
			} else {
				vassume(l > chunkSize)
			}
		}
		off := bases[nd_range(0, len(bases)-1)] + nd_range(-1, 1)
		if off < 0 {
			off = 0
		}
		if off+l > size {
			off = size - l
		}
		vassume(off >= 0)
		reqs = append(reqs, req{off, l})
		data[off] ^= 0xA5
		data[off+l-1] ^= byte(0x5A + c)
	}
	for _, r := range reqs {
		got, err := ms.ptr(int64(r.off), int32(r.l))
		vassert(err == nil, "a read inside an unchanged file failed (window logic)")
		if err != nil {
			return
		}
		vassert(len(got) == r.l, "window returned the wrong number of bytes")
		vassert(got[r.l-1] == data[r.off+r.l-1], "window returned the wrong bytes (end)")
		vassert(got[0] == data[r.off], "window returned the wrong bytes (start)")
	}
	vreach("done")
}

func init() { verifHarnesses["HMapPtr"] = HMapPtr }
