package sender

import (
	"encoding/binary"
	"io"
	"io/fs"
	"time"

	"github.com/gokrazy/rsync/internal/progress"
	"github.com/gokrazy/rsync/internal/rsyncchecksum"
	"github.com/gokrazy/rsync/internal/rsyncopts"
	"github.com/gokrazy/rsync/internal/rsyncos"
	"github.com/gokrazy/rsync/internal/rsyncwire"
	"github.com/mmcloughlin/md4"
)

func zeroTime() time.Time { return time.Time{} }

// refWeak is the protocol's weak checksum written from its definition
// (signed-char arithmetic): s1 = sum x_i, s2 = sum (n-i) x_i, both mod 2^16.
func refWeak(b []byte) uint32 {
	var s1, s2 uint32
	for _, x := range b {
		s1 += uint32(int32(int8(x)))
		s2 += s1
	}
	return (s1 & 0xffff) | (s2 << 16)
}

// oneFileSource serves the same bytes under every name.
type oneFileSource struct {
	data []byte
}

func (s *oneFileSource) FS() fs.FS { return nil }
func (s *oneFileSource) Open(name string) (File, error) {
	return &vfile{data: s.data, info: &vinfo{name: name, size: int64(len(s.data)), mode: 0o644}}, nil
}
func (s *oneFileSource) Readlink(name string) (string, error) { return "", nil }
func (s *oneFileSource) Close() error                         { return nil }

type deltaSetup struct {
	basis, target []byte
	seed          int32
	b, s2         int
	conn          *vconn
	st            *Transfer
	fl            *fileList
	count, rem    int
}

func newSenderTransfer(conn *vconn, seed int32, flags rsyncopts.VerifFlags) *Transfer {
	return &Transfer{
		Logger:   vlogger{},
		Opts:     rsyncopts.VerifOptions(flags),
		Env:      &rsyncos.Env{Stdout: io.Discard, Stderr: io.Discard},
		Progress: progress.NewPrinter(nil, zeroTime),
		Conn:     &rsyncwire.Conn{Reader: conn, Writer: conn},
		Seed:     seed,
	}
}

// setupDelta builds a one-file sender session whose request carries the checksum
// list a legal receiver would send for basis with block length b and strong length s2.
func setupDelta(basis, target []byte, b, s2 int) *deltaSetup {
	m := len(basis)
	d := &deltaSetup{b: b, s2: s2, basis: basis, target: target}
	d.seed = nd_i32()
	d.count = (m + b - 1) / b
	d.rem = m % b
	var in []byte
	in = putI32(in, 0) // request file index 0
	in = putI32(in, int32(d.count))
	in = putI32(in, int32(b))
	in = putI32(in, int32(s2))
	in = putI32(in, int32(d.rem))
	for i := 0; i < d.count; i++ {
		blk := basis[i*b : min((i+1)*b, m)]
		in = putI32(in, int32(refWeak(blk)))
		sum2 := rsyncchecksum.Checksum2(d.seed, blk)
		in = append(in, sum2[:s2]...)
	}
	in = putI32(in, -1)
	in = putI32(in, -1)
	d.conn = newVconn(in)
	d.st = newSenderTransfer(d.conn, d.seed, rsyncopts.VerifFlags{Server: true, Sender: true})
	d.fl = &fileList{Files: []file{{source: &oneFileSource{data: target}, path: "f", Wpath: "f", regular: true, Length: int64(len(target))}}}
	return d
}

// deltaOut is the decoded sender output for one file.
type deltaOut struct {
	result   []byte // what the reference receiver reconstructs
	literals int    // literal bytes on the wire
	refs     int    // block references on the wire
	trailer  []byte
	end      int // offset after the trailer
}

// refReceive is the reference receiver: it applies the token stream found in out
// (starting after the index and header echo) to basis. It also checks framing.
func refReceive(out []byte, pos int, basis []byte, b, count, rem int) *deltaOut {
	r := &deltaOut{}
	for {
		vassert(pos+4 <= len(out), "token stream truncated")
		t := getI32(out, pos)
		pos += 4
		if t == 0 {
			break
		}
		if t > 0 {
			vassert(int64(t) <= chunkSize, "literal run longer than chunk size")
			vassert(pos+int(t) <= len(out), "literal run exceeds stream")
			r.result = append(r.result, out[pos:pos+int(t)]...)
			r.literals += int(t)
			pos += int(t)
			continue
		}
		i := int(-(t + 1))
		vassert(i >= 0 && i < count, "block reference out of range")
		l := b
		if i == count-1 && rem != 0 {
			l = rem
		}
		r.result = append(r.result, basis[i*b:i*b+l]...)
		r.refs++
	}
	vassert(pos+16 <= len(out), "trailer missing")
	r.trailer = out[pos : pos+16]
	r.end = pos + 16
	return r
}

func bytesEq(a, b []byte) bool {
	if len(a) != len(b) {
		return false
	}
	var d byte
	for i := range a {
		d |= a[i] ^ b[i]
	}
	return d == 0
}

func wholeSum(seed int32, data []byte) []byte {
	h := md4.New()
	binary.Write(h, binary.LittleEndian, seed)
	h.Write(data)
	return h.Sum(nil)
}

// HDeltaSender (C02-S): for every basis, target, seed with the instance's lengths and
// block layout, the real SendFiles output applied to basis by the reference receiver
// reproduces target and carries the right whole-file checksum.
func HDeltaSender() {
	n, m, b, s2 := vparam("n"), vparam("m"), vparam("b"), vparam("s2")
	basis := nd_bytes(m)
	target := nd_bytes(n)
	d := setupDelta(basis, target, b, s2)
	err := d.st.SendFiles(d.fl)
	vassert(err == nil, "SendFiles returned an error")
	if err != nil {
		return
	}
	out := d.conn.out
	vassert(len(out) >= 20, "output shorter than index+header")
	vassert(getI32(out, 0) == 0, "index echo")
	cnt, bl, sl, rm := getI32(out, 4), getI32(out, 8), getI32(out, 12), getI32(out, 16)
	if d.count > 0 {
		vassert(int(cnt) == d.count && int(bl) == b && int(sl) == s2 && int(rm) == d.rem, "header echo")
	}
	r := refReceive(out, 20, basis, b, d.count, d.rem)
	vassert(bytesEq(r.result, target), "token stream does not reproduce the target")
	vassert(bytesEq(r.trailer, wholeSum(d.seed, target)), "whole-file checksum trailer")
	vassert(len(out) == r.end+8 && getI32(out, r.end) == -1 && getI32(out, r.end+4) == -1, "phase markers")
	if r.refs > 0 {
		vreach("blockref")
	}
	if r.literals > 0 {
		vreach("literal")
	}
	vreach("end")
}

var verifHarnesses = map[string]func(){
	"HDeltaSender": HDeltaSender,
}

// sumRequest appends one request (index, header, checksum list for basis) to in.
func sumRequest(in []byte, idx int32, basis []byte, b, s2 int, seed int32) []byte {
	m := len(basis)
	count := (m + b - 1) / b
	in = putI32(in, idx)
	in = putI32(in, int32(count))
	in = putI32(in, int32(b))
	in = putI32(in, int32(s2))
	in = putI32(in, int32(m%b))
	for i := 0; i < count; i++ {
		blk := basis[i*b : min((i+1)*b, m)]
		in = putI32(in, int32(refWeak(blk)))
		sum2 := rsyncchecksum.Checksum2(seed, blk)
		in = append(in, sum2[:s2]...)
	}
	return in
}

// HDeltaTwoFiles (C01/C02): two files requested in one session, each against its own basis.
// Each file's token stream must reproduce that file (state carried from one file to the
// next - match offsets, tables, hash state - must not leak).
func HDeltaTwoFiles() {
	n, m, b := vparam("n"), vparam("m"), vparam("b")
	seed := nd_i32()
	t0, b0 := nd_bytes(n), nd_bytes(m)
	t1, b1 := nd_bytes(n), nd_bytes(m)
	var in []byte
	in = sumRequest(in, 0, b0, b, 16, seed)
	in = sumRequest(in, 1, b1, b, 16, seed)
	in = putI32(in, -1)
	in = putI32(in, -1)
	conn := newVconn(in)
	st := newSenderTransfer(conn, seed, rsyncopts.VerifFlags{Server: true, Sender: true})
	fl := &fileList{Files: []file{
		{source: &oneFileSource{data: t0}, path: "a", Wpath: "a", regular: true, Length: int64(n)},
		{source: &oneFileSource{data: t1}, path: "b", Wpath: "b", regular: true, Length: int64(n)},
	}}
	err := st.SendFiles(fl)
	vassert(err == nil, "SendFiles returned an error")
	if err != nil {
		return
	}
	out := conn.out
	count, rem := (m+b-1)/b, m%b
	pos := 0
	for f := 0; f < 2; f++ {
		vassert(len(out) >= pos+20, "output shorter than index+header")
		vassert(getI32(out, pos) == int32(f), "index echo")
		basis, target := b0, t0
		if f == 1 {
			basis, target = b1, t1
		}
		r := refReceive(out, pos+20, basis, b, count, rem)
		vassert(bytesEq(r.result, target), "token stream does not reproduce the file (two-file session)")
		vassert(bytesEq(r.trailer, wholeSum(seed, target)), "whole-file checksum trailer (two-file session)")
		pos = r.end
		if r.refs > 0 {
			vreach("blockref")
		}
	}
	vreach("end")
}

func init() { verifHarnesses["HDeltaTwoFiles"] = HDeltaTwoFiles }
