package sender

import (
	"github.com/gokrazy/rsync/internal/rsyncopts"
	"github.com/gokrazy/rsync/internal/rsyncwire"
)

// HHostileFilter (C08): RecvFilterList on arbitrary bytes, then matching an arbitrary
// name against whatever rules were accepted. Obligations are the implicit ones
// (no panic, no out-of-range, no negative make, no exit).
func HHostileFilter() {
	L := vparam("L")
	conn := newVconn(nd_bytes(L))
	l, err := RecvFilterList(&rsyncwire.Conn{Reader: conn, Writer: conn})
	if err != nil {
		vreach("error")
		return
	}
	vreach("parsed")
	name := nd_string(vparam("nameLen"))
	l.matches(name)
	vreach("matched")
}

// HHostileRequests (C08): the sender's request loop on arbitrary bytes from the receiver:
// file indices, checksum headers, checksum lists.
func HHostileRequests() {
	L, n := vparam("L"), vparam("n")
	conn := newVconn(nd_bytes(L))
	st := newSenderTransfer(conn, nd_i32(), rsyncopts.VerifFlags{Server: true, Sender: true, DryRun: vparam("dry") == 1})
	data := nd_bytes(n)
	fl := &fileList{Files: []file{{source: &oneFileSource{data: data}, path: "f", Wpath: "f", regular: true, Length: int64(n)}}}
	err := st.SendFiles(fl)
	if err != nil {
		vreach("error")
		return
	}
	vreach("ok")
}

func init() {
	verifHarnesses["HHostileFilter"] = HHostileFilter
	verifHarnesses["HHostileRequests"] = HHostileRequests
}

// HSenderDry (C10, sender half): in a dry run the sender answers every request with the
// index echo only - no header, no literal data, no checksum.
func HSenderDry() {
	k := vparam("k")
	var in []byte
	for i := 0; i < k; i++ {
		in = putI32(in, int32(nd_range(0, 1)))
	}
	in = putI32(in, -1)
	in = putI32(in, -1)
	conn := newVconn(in)
	st := newSenderTransfer(conn, nd_i32(), rsyncopts.VerifFlags{Server: true, Sender: true, DryRun: true})
	src := &oneFileSource{data: nd_bytes(3)}
	fl := &fileList{Files: []file{
		{source: src, path: "a", Wpath: "a", regular: true, Length: 3},
		{source: src, path: "b", Wpath: "b", regular: true, Length: 3},
	}}
	err := st.SendFiles(fl)
	vassert(err == nil, "dry-run sender failed")
	out := conn.out
	vassert(len(out) == 4*k+8, "dry-run sender wrote more than the index echoes and phase markers")
	for i := 0; i < k; i++ {
		vassert(getI32(out, 4*i) == getI32(in, 4*i), "index echo")
	}
	vreach("ok")
}

func init() { verifHarnesses["HSenderDry"] = HSenderDry }
