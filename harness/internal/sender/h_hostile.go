package sender

import (
	"github.com/gokrazy/rsync/internal/rsyncopts"
	"github.com/gokrazy/rsync/internal/rsyncwire"
)

// HHostileFilter (C08): RecvFilterList on arbitrary bytes, then matching an arbitrary
// name against whatever rules were accepted. Obligations are the implicit ones
// (no panic, no out-of-range, no negative make, no exit).
func HHostileFilter() {
	L := vparam("L")
	conn := newVconn(nd_bytes(L))
	l, err := RecvFilterList(&rsyncwire.Conn{Reader: conn, Writer: conn})
	if err != nil {
		vreach("error")
		return
	}
	vreach("parsed")
	name := nd_string(vparam("nameLen"))
	l.matches(name)
	vreach("matched")
}

// HHostileRequests (C08): the sender's request loop on arbitrary bytes from the receiver:
// file indices, checksum headers, checksum lists.
func HHostileRequests() {
	L, n := vparam("L"), vparam("n")
	conn := newVconn(nd_bytes(L))
	st := newSenderTransfer(conn, nd_i32(), rsyncopts.VerifFlags{Server: true, Sender: true, DryRun: vparam("dry") == 1})
	data := nd_bytes(n)
	fl := &fileList{Files: []file{{source: &oneFileSource{data: data}, path: "f", Wpath: "f", regular: true, Length: int64(n)}}}
	err := st.SendFiles(fl)
	if err != nil {
		vreach("error")
		return
	}
	vreach("ok")
}

func init() {
	verifHarnesses["HHostileFilter"] = HHostileFilter
	verifHarnesses["HHostileRequests"] = HHostileRequests
}
