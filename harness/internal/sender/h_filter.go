package sender

import (
	"github.com/gokrazy/rsync/internal/rsyncopts"
	"github.com/gokrazy/rsync/internal/rsyncwire"
	"github.com/gokrazy/rsync/internal/vfsx"
)

func symLetter() byte {
	// 'a'..'d' and 'A'..'D': matching is case sensitive
	c := nd_u8()
	vassume(c|0x20 >= 'a')
	vassume(c|0x20 <= 'd')
	return c
}

type refRule struct {
	include bool
	pattern string
}

// refExcluded: rsync's first-match semantics for plain-name rules: the first rule whose
// pattern equals the entry's base name (or the whole path if the pattern contains '/')
// decides; exclude rule => left out.
func refExcluded(rules []refRule, path string) bool {
	base := path
	for i := len(path) - 1; i >= 0; i-- {
		if path[i] == '/' {
			base = path[i+1:]
			break
		}
	}
	for _, r := range rules {
		hasSlash := false
		for i := 0; i < len(r.pattern); i++ {
			if r.pattern[i] == '/' {
				hasSlash = true
			}
		}
		cand := base
		if hasSlash {
			cand = path
		}
		if r.pattern == cand {
			return !r.include
		}
	}
	return false
}

// buildRules sends k symbolic plain-name rules through the real wire parser
// (RecvFilterList -> parseFilter -> addRule) and returns the reference view as well.
func buildRules(k int) (*filterRuleList, []refRule) {
	var wire []byte
	var ref []refRule
	for i := 0; i < k; i++ {
		inc := nd_bool()
		pat := string([]byte{symLetter()})
		if vparam("long") == 1 && nd_bool() {
			pat += string([]byte{symLetter()})
		}
		line := "- " + pat
		if inc {
			line = "+ " + pat
		}
		wire = putI32(wire, int32(len(line)))
		wire = append(wire, line...)
		ref = append(ref, refRule{include: inc, pattern: pat})
	}
	wire = putI32(wire, 0)
	conn := newVconn(wire)
	l, err := RecvFilterList(&rsyncwire.Conn{Reader: conn, Writer: conn})
	vassert(err == nil, "plain-name rules were rejected")
	if err != nil {
		return nil, nil
	}
	return l, ref
}

// HFilterMatch (C13): for k rules (exclude/include, symbolic one-letter patterns) and a
// symbolic name (top level or one level deep), the real matcher leaves the entry out
// iff the first matching rule is an exclude rule.
func HFilterMatch() {
	l, ref := buildRules(vparam("k"))
	if l == nil {
		return
	}
	name := string([]byte{symLetter()})
	if vparam("long") == 1 && nd_bool() {
		name += string([]byte{symLetter()}) // two-letter names: a rule may equal a prefix or a suffix
	}
	if nd_bool() {
		name = string([]byte{symLetter()}) + "/" + name
	}
	got := l.matches(name)
	want := refExcluded(ref, name)
	vassert(got == want, "filter decision differs from first-match exclude/include semantics")
	if want {
		vreach("excluded")
	} else {
		vreach("kept")
	}
}

// HFilterWalk (C13): a directory with n entries with symbolic distinct names (files or
// directories, a directory holds one child); the emitted file list must contain exactly
// the entries that are not excluded and not below an excluded directory - in particular
// later siblings of an excluded file.
func HFilterWalk() {
	n := vparam("n")
	l, ref := buildRules(vparam("k"))
	if l == nil {
		return
	}
	fsys := vfsx.New()
	defer fsys.Cleanup()
	type ent struct {
		path  string
		isDir bool
		par   int
	}
	var ents []ent
	for i := 0; i < n; i++ {
		nm := string([]byte{symLetter()})
		for _, e := range ents {
			if e.par < 0 {
				vassume(e.path != nm)
			}
		}
		isDir := nd_bool()
		if isDir {
			fsys.Add(&vfsx.Node{Name: nm, Kind: vfsx.KDir, Perm: 0o755})
			ents = append(ents, ent{path: nm, isDir: true, par: -1})
			child := nm + "/" + string([]byte{symLetter()})
			fsys.Add(&vfsx.Node{Name: child, Kind: vfsx.KReg, Perm: 0o644, Data: []byte{1}})
			ents = append(ents, ent{path: child, par: len(ents) - 1})
		} else {
			fsys.Add(&vfsx.Node{Name: nm, Kind: vfsx.KReg, Perm: 0o644, Data: []byte{2}})
			ents = append(ents, ent{path: nm, par: -1})
		}
	}
	conn := newVconn(nil)
	st := newSenderTransfer(conn, 0, rsyncopts.VerifFlags{Server: true, Sender: true, Recurse: true, XferDirs: 1})
	st.Source = NewFSSource(fsys.AsFS("."))
	list, err := st.SendFileList("/model", []string{"."}, l)
	vassert(err == nil, "SendFileList failed")
	if err != nil {
		return
	}
	for _, e := range ents {
		want := !refExcluded(ref, e.path)
		if e.par >= 0 && refExcluded(ref, ents[e.par].path) {
			want = false
		}
		got := false
		for _, f := range list.Files {
			if f.Wpath == e.path {
				got = true
			}
		}
		if want {
			vassert(got, "an entry that no rule excludes is missing from the file list")
			vreach("listed")
		} else {
			vassert(!got, "an excluded entry (or one below an excluded directory) was listed")
			vreach("dropped")
		}
	}
}

func init() {
	verifHarnesses["HFilterMatch"] = HFilterMatch
	verifHarnesses["HFilterWalk"] = HFilterWalk
}
