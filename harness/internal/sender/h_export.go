package sender

import (
	"io"

	"github.com/gokrazy/rsync/internal/rsyncopts"
)

// VerifSendOneFile runs the real SendFiles for a one-entry file list whose file holds data,
// reading requests from in and returning everything written (for cross-package harnesses).
func VerifSendOneFile(in []byte, data []byte, seed int32, dry bool) ([]byte, error) {
	conn := newVconn(in)
	st := newSenderTransfer(conn, seed, rsyncopts.VerifFlags{Server: true, Sender: true, DryRun: dry})
	fl := &fileList{Files: []file{{source: &oneFileSource{data: data}, path: "f", Wpath: "f", regular: true, Length: int64(len(data))}}}
	err := st.SendFiles(fl)
	if err == nil && conn.pos != len(in) {
		return conn.out, io.ErrShortBuffer // did not consume all requests
	}
	return conn.out, err
}
