package sender

// segments decodes the token stream into (isRef, start, length, block) runs over the target.
type seg struct {
	ref    bool
	start  int
	length int
	block  int
}

func segments(out []byte, pos int, b, count, rem int) []seg {
	var segs []seg
	off := 0
	for {
		vassert(pos+4 <= len(out), "token stream truncated")
		t := getI32(out, pos)
		pos += 4
		if t == 0 {
			break
		}
		if t > 0 {
			vassert(pos+int(t) <= len(out), "literal run exceeds stream")
			segs = append(segs, seg{start: off, length: int(t)})
			off += int(t)
			pos += int(t)
			continue
		}
		i := int(-(t + 1))
		vassert(i >= 0 && i < count, "block reference out of range")
		l := b
		if i == count-1 && rem != 0 {
			l = rem
		}
		segs = append(segs, seg{ref: true, start: off, length: l, block: i})
		off += l
	}
	return segs
}

// HDeltaComplete (C16): arbitrary basis (kb full blocks of length b) and arbitrary target
// of n bytes. (i) If the target equals the basis no literal byte is sent. (iii) At every
// byte offset o: if the b bytes at o equal some basis block and no earlier emitted
// reference extends beyond o, the stream carries a block reference starting at o.
func HDeltaComplete() {
	n, kb, b := vparam("n"), vparam("kb"), vparam("b")
	m := kb * b
	basis := nd_bytes(m)
	target := nd_bytes(n)
	d := setupDelta(basis, target, b, vparam("s2"))
	err := d.st.SendFiles(d.fl)
	vassert(err == nil, "SendFiles returned an error")
	if err != nil {
		return
	}
	segs := segments(d.conn.out, 20, b, d.count, d.rem)
	lits := 0
	for _, s := range segs {
		if !s.ref {
			lits += s.length
		}
	}
	if n == m && bytesEq(target, basis) {
		vassert(lits == 0, "identical file: literal data was sent")
		vreach("identical")
	}
	if n >= b {
		o := nd_range(0, n-b)
		// does the window at o equal some (full) basis block?
		matches := false
		for i := 0; i < kb; i++ {
			if bytesEq(target[o:o+b], basis[i*b:(i+1)*b]) {
				matches = true
			}
		}
		if matches {
			// is offset o examined, i.e. not inside an earlier reference?
			free := true
			refAt := false
			for _, s := range segs {
				if s.ref && s.start < o && s.start+s.length > o {
					free = false
				}
				if s.ref && s.start == o {
					refAt = true
				}
			}
			if free {
				vassert(refAt, "data present in the basis at this offset was not sent as a block reference")
				vreach("match-found")
				if o > 0 {
					vreach("match-unaligned")
				}
			}
		}
	}
	vreach("done")
}

// HDeltaEdit (C16): target = P + basis + S. The literal data sent is bounded by
// |P| + |S| + c*b (c is the instance parameter; the registered value is the smallest
// for which the obligation holds).
func HDeltaEdit() {
	p, s, kb, b, c := vparam("p"), vparam("s"), vparam("kb"), vparam("b"), vparam("c")
	basis := nd_bytes(kb * b)
	var target []byte
	target = append(target, nd_bytes(p)...)
	target = append(target, basis...)
	target = append(target, nd_bytes(s)...)
	d := setupDelta(basis, target, b, 16)
	err := d.st.SendFiles(d.fl)
	vassert(err == nil, "SendFiles returned an error")
	if err != nil {
		return
	}
	segs := segments(d.conn.out, 20, b, d.count, d.rem)
	lits := 0
	for _, sg := range segs {
		if !sg.ref {
			lits += sg.length
		}
	}
	vassert(lits <= p+s+c*b, "more literal data than the edited bytes plus c blocks")
	if lits < p+s+kb*b {
		vreach("saved")
	}
	vreach("done")
}

func init() {
	verifHarnesses["HDeltaComplete"] = HDeltaComplete
	verifHarnesses["HDeltaEdit"] = HDeltaEdit
}
