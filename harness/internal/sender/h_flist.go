package sender

import (
	"github.com/gokrazy/rsync/internal/rsyncopts"
	"github.com/gokrazy/rsync/internal/vfsx"
)

func kindMode(k vfsx.Kind) int32 {
	switch k {
	case vfsx.KReg:
		return 0o100000
	case vfsx.KDir:
		return 0o040000
	case vfsx.KLink:
		return 0o120000
	case vfsx.KFifo:
		return 0o010000
	case vfsx.KSock:
		return 0o140000
	case vfsx.KChr:
		return 0o020000
	case vfsx.KBlk:
		return 0o060000
	}
	return 0
}

// HFlistEncode (C15-E / C11-a / C14-b): the file list the real sender emits for a
// directory holding one entry of arbitrary type and metadata is decoded by the
// independent protocol-27 reference decoder into exactly the source entries, and the
// decoder consumes exactly the bytes that were sent.
func HFlistEncode() {
	fsys := vfsx.New()
	defer fsys.Cleanup()
	kind := vfsx.Kind(nd_range(1, 7))
	perm := uint32(nd_u16()) & 0o777
	sec := int64(nd_i32())
	uid, gid := nd_u32(), nd_u32()
	rdev := nd_u32()
	n := vparam("n")
	node := &vfsx.Node{Name: "f", Kind: kind, Perm: perm, Sec: sec, Uid: uid, Gid: gid}
	switch kind {
	case vfsx.KReg:
		node.Data = nd_bytes(n)
	case vfsx.KLink:
		node.Target = symTarget(1)
		node.Perm = 0o777
		perm = 0o777
	case vfsx.KChr, vfsx.KBlk:
		node.Rdev = uint64(rdev)
	case vfsx.KFifo, vfsx.KSock:
		rdev = 0 // the kernel reports no device number for fifos and sockets
	}
	fsys.Add(node)
	devices := nd_bool()
	specials := devices
	if vparam("split") == 1 {
		specials = nd_bool()
	}
	fl := rsyncopts.VerifFlags{Server: true, Sender: true, Recurse: true, XferDirs: 1,
		Links: nd_bool(), Uid: nd_bool(), Gid: nd_bool(), Devices: devices, Specials: specials, Checksum: nd_bool()}
	conn := newVconn(nil)
	st := newSenderTransfer(conn, 0, fl)
	st.Source = NewFSSource(fsys.AsFS("."))
	list, err := st.SendFileList("/model", []string{"."}, &filterRuleList{})
	vassert(err == nil, "SendFileList failed")
	if err != nil {
		return
	}
	vassert(len(list.Files) == 2, "sender's own list has two entries")
	o := refOpts{Uid: fl.Uid, Gid: fl.Gid, Devices: fl.Devices, Specials: fl.Specials, Links: fl.Links, Checksum: fl.Checksum}
	ents, ioerr, consumed, ok := refDecodeList(conn.out, o, 4)
	vassert(ok, "the emitted file list is not a valid protocol-27 list for the session's options")
	if !ok {
		return
	}
	vassert(consumed == len(conn.out), "trailing bytes after the file list")
	vassert(ioerr == 0, "I/O error word")
	vassert(len(ents) == 2, "number of entries on the wire")
	if len(ents) != 2 {
		return
	}
	d, e := ents[0], ents[1]
	vassert(d.Name == "." && d.Mode&0o170000 == 0o040000, "first entry is the directory '.'")
	vassert(e.Name == "f", "entry name")
	vassert(e.Mode == kindMode(kind)|int32(perm), "mode (type and permission bits)")
	if kind != vfsx.KLink {
		// (a symlink's own mtime cannot be set by the native replay, so it is not compared)
		vassert(e.Mtime == int32(sec), "mtime")
	}
	if kind == vfsx.KReg {
		vassert(e.Length == int64(n), "length")
	}
	if o.Uid {
		vassert(uint32(e.Uid) == uid, "uid")
	}
	if o.Gid {
		vassert(uint32(e.Gid) == gid, "gid")
	}
	if o.hasRdev(e.Mode) {
		vassert(uint32(e.Rdev) == rdev, "rdev")
		vreach("rdev")
	}
	if o.Links && kind == vfsx.KLink {
		vassert(e.Target == node.Target, "link target")
		vreach("target")
	}
	vreach("done")
}

func init() { verifHarnesses["HFlistEncode"] = HFlistEncode }
