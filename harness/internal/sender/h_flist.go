package sender

import (
	"github.com/gokrazy/rsync/internal/rsyncopts"
	"github.com/gokrazy/rsync/internal/rsyncwire"
	"github.com/gokrazy/rsync/internal/vfsx"
)

func kindMode(k vfsx.Kind) int32 {
	switch k {
	case vfsx.KReg:
		return 0o100000
	case vfsx.KDir:
		return 0o040000
	case vfsx.KLink:
		return 0o120000
	case vfsx.KFifo:
		return 0o010000
	case vfsx.KSock:
		return 0o140000
	case vfsx.KChr:
		return 0o020000
	case vfsx.KBlk:
		return 0o060000
	}
	return 0
}

// HFlistEncode (C15-E / C11-a / C14-b): the file list the real sender emits for a
// directory holding one entry of arbitrary type and metadata is decoded by the
// independent protocol-27 reference decoder into exactly the source entries, and the
// decoder consumes exactly the bytes that were sent.
func HFlistEncode() {
	fsys := vfsx.New()
	defer fsys.Cleanup()
	kind := vfsx.Kind(nd_range(1, 7))
	perm := uint32(nd_u16()) & 0o777
	sec := int64(nd_i32())
	ns := nd_u32() // sub-second part: the wire carries whole seconds, rounded down
	vassume(ns < 1000000000)
	nsec := int64(ns)
	uid, gid := nd_u32(), nd_u32()
	rdev := nd_u32()
	n := vparam("n")
	node := &vfsx.Node{Name: "f", Kind: kind, Perm: perm, Sec: sec, Nsec: nsec, Uid: uid, Gid: gid}
	switch kind {
	case vfsx.KReg:
		node.Data = nd_bytes(n)
	case vfsx.KLink:
		node.Target = symTarget(1)
		node.Perm = 0o777
		perm = 0o777
	case vfsx.KChr, vfsx.KBlk:
		node.Rdev = uint64(rdev)
	case vfsx.KFifo, vfsx.KSock:
		rdev = 0 // the kernel reports no device number for fifos and sockets
	}
	fsys.Add(node)
	devices := nd_bool()
	specials := devices
	if vparam("split") == 1 {
		specials = nd_bool()
	}
	fl := rsyncopts.VerifFlags{Server: true, Sender: true, Recurse: true, XferDirs: 1,
		Links: nd_bool(), Uid: nd_bool(), Gid: nd_bool(), Devices: devices, Specials: specials, Checksum: nd_bool()}
	conn := newVconn(nil)
	st := newSenderTransfer(conn, 0, fl)
	st.Source = NewFSSource(fsys.AsFS("."))
	list, err := st.SendFileList("/model", []string{"."}, &filterRuleList{})
	vassert(err == nil, "SendFileList failed")
	if err != nil {
		return
	}
	vassert(len(list.Files) == 2, "sender's own list has two entries")
	o := refOpts{Uid: fl.Uid, Gid: fl.Gid, Devices: fl.Devices, Specials: fl.Specials, Links: fl.Links, Checksum: fl.Checksum}
	ents, ioerr, consumed, ok := refDecodeList(conn.out, o, 4)
	vassert(ok, "the emitted file list is not a valid protocol-27 list for the session's options")
	if !ok {
		return
	}
	vassert(consumed == len(conn.out), "trailing bytes after the file list")
	vassert(ioerr == 0, "I/O error word")
	vassert(len(ents) == 2, "number of entries on the wire")
	if len(ents) != 2 {
		return
	}
	d, e := ents[0], ents[1]
	vassert(d.Name == "." && d.Mode&0o170000 == 0o040000, "first entry is the directory '.'")
	vassert(e.Name == "f", "entry name")
	vassert(e.Mode == kindMode(kind)|int32(perm), "mode (type and permission bits)")
	if kind != vfsx.KLink {
		// (a symlink's own mtime cannot be set by the native replay, so it is not compared)
		vassert(e.Mtime == int32(sec), "mtime")
	}
	if kind == vfsx.KReg {
		vassert(e.Length == int64(n), "length")
	}
	if o.Uid {
		vassert(uint32(e.Uid) == uid, "uid")
	}
	if o.Gid {
		vassert(uint32(e.Gid) == gid, "gid")
	}
	if o.hasRdev(e.Mode) {
		vassert(uint32(e.Rdev) == rdev, "rdev")
		vreach("rdev")
	}
	if o.Links && kind == vfsx.KLink {
		vassert(e.Target == node.Target, "link target")
		vreach("target")
	}
	vreach("done")
}

func init() { verifHarnesses["HFlistEncode"] = HFlistEncode; verifHarnesses["HIdLists"] = HIdLists }

// HIdLists (C15, id lists): with a name service in which every id resolves (users are
// called "usr", groups "grp"; symbolic-only stand-in for os/user), the list the sender
// emits for one file with arbitrary owner and group must carry, after the entries, a
// user list that names exactly the file's non-zero uid and a group list that names exactly
// its non-zero gid - each present only under the option that adds it.
func HIdLists() {
	fsys := vfsx.New()
	defer fsys.Cleanup()
	uid, gid := nd_u32(), nd_u32()
	fsys.Add(&vfsx.Node{Name: "f", Kind: vfsx.KReg, Perm: 0o644, Uid: uid, Gid: gid, Data: []byte{1}})
	fl := rsyncopts.VerifFlags{Server: true, Sender: true, Recurse: true, XferDirs: 1, Uid: nd_bool(), Gid: nd_bool()}
	conn := newVconn(nil)
	st := newSenderTransfer(conn, 0, fl)
	st.Source = NewFSSource(fsys.AsFS("."))
	_, err := st.SendFileList("/model", []string{"."}, &filterRuleList{})
	vassert(err == nil, "SendFileList failed")
	if err != nil {
		return
	}
	o := refOpts{Uid: fl.Uid, Gid: fl.Gid}
	ents, _, consumed, ok := refDecodeList(conn.out, o, 4)
	vassert(ok && consumed == len(conn.out), "the emitted list (entries, id lists, error word) is not a valid protocol-27 list")
	if !ok {
		return
	}
	vassert(len(ents) == 2, "number of entries on the wire")
	wantU, wantG := 0, 0
	if fl.Uid && uid != 0 {
		wantU = 1
	}
	if fl.Gid && gid != 0 {
		wantG = 1
	}
	vassert(len(refUidList) == wantU, "user list: one pair per distinct non-zero uid in the list")
	vassert(len(refGidList) == wantG, "group list: one pair per distinct non-zero gid in the list")
	if len(refUidList) == 1 {
		vassert(uint32(refUidList[0].ID) == uid && refUidList[0].Name == "usr", "user list pairs the file's uid with the user's name")
		vreach("uidlist")
	}
	if len(refGidList) == 1 {
		vassert(uint32(refGidList[0].ID) == gid && refGidList[0].Name == "grp", "group list pairs the file's gid with the group's name")
		vreach("gidlist")
	}
	vreach("done")
}

// HSenderNumbering (C15): the index by which the receiver requests a file refers to the
// same file on the sender. A directory holds two files with symbolic one-byte names
// (any byte but NUL, '/' and '.', so names sorting before "." are included) and different
// contents; the whole sender (Do: file list, sort, request loop) is asked for the k-th
// entry of the bytewise-sorted list and must answer with that file's bytes.
func HSenderNumbering() {
	fsys := vfsx.New()
	defer fsys.Cleanup()
	n1, n2 := nd_u8(), nd_u8()
	vassume(n1 != 0)
	vassume(n1 != '/')
	vassume(n1 != '.')
	vassume(n2 != 0)
	vassume(n2 != '/')
	vassume(n2 != '.')
	vassume(n1 != n2)
	s1, s2 := string([]byte{n1}), string([]byte{n2})
	fsys.Add(&vfsx.Node{Name: s1, Kind: vfsx.KReg, Perm: 0o644, Data: []byte{0x41}})
	fsys.Add(&vfsx.Node{Name: s2, Kind: vfsx.KReg, Perm: 0o644, Data: []byte{0x42, 0x42}})
	senderNumbering(fsys, []string{".", s1, s2}, s1, s2)
}

// HSenderNumberingDir (C15/C01): as HSenderNumbering, for a tree with a subdirectory:
// "d/x" next to a sibling "d<c>" with a symbolic byte c (names such as "d.x" and "d-x"
// sort before "d/x", "d0" after it: the order is bytewise over the whole path).
func HSenderNumberingDir() {
	fsys := vfsx.New()
	defer fsys.Cleanup()
	c := nd_u8()
	vassume(c != 0)
	vassume(c != '/')
	s1, s2 := "d/x", string([]byte{'d', c})
	fsys.Add(&vfsx.Node{Name: "d", Kind: vfsx.KDir, Perm: 0o755})
	fsys.Add(&vfsx.Node{Name: s1, Kind: vfsx.KReg, Perm: 0o644, Data: []byte{0x41}})
	fsys.Add(&vfsx.Node{Name: s2, Kind: vfsx.KReg, Perm: 0o644, Data: []byte{0x42, 0x42}})
	senderNumbering(fsys, []string{".", "d", s1, s2}, s1, s2)
}

// senderNumbering asks the real sender for the k-th entry of the bytewise-sorted names;
// s1 holds one byte 0x41, s2 two bytes 0x42, every other name is a directory.
func senderNumbering(fsys *vfsx.FS, names []string, s1, s2 string) {
	nEnt := len(names)
	// reference numbering: bytewise order
	for i := 1; i < len(names); i++ {
		for j := i; j > 0 && names[j] < names[j-1]; j-- {
			names[j], names[j-1] = names[j-1], names[j]
		}
	}
	k := nd_range(0, nEnt-1)
	vassume(names[k] == s1 || names[k] == s2)
	var in []byte
	in = putI32(in, int32(k))
	in = putI32(in, 0)
	in = putI32(in, 0)
	in = putI32(in, 0)
	in = putI32(in, 0)
	in = putI32(in, -1)
	in = putI32(in, -1)
	in = putI32(in, -1) // goodbye
	conn := newVconn(in)
	st := newSenderTransfer(conn, nd_i32(), rsyncopts.VerifFlags{Server: true, Sender: true, Recurse: true, XferDirs: 1})
	// directory-backed module: the sender opens its own os.Root on the module path
	modPath := "/model/src"
	if p := fsys.RealPath(); p != "" {
		modPath = p
	}
	vfsx.AmbientRoots[modPath] = "."
	crd, cwr := rsyncwire.CounterPair(conn, conn)
	st.Conn = &rsyncwire.Conn{Reader: crd, Writer: cwr}
	_, err := st.Do(crd, cwr, modPath, []string{"."}, nil)
	vassert(err == nil, "sender session failed")
	if err != nil {
		return
	}
	// skip the file list, then: index echo, header, tokens
	_, _, consumed, ok := refDecodeList(conn.out, refOpts{}, nEnt+1)
	vassert(ok, "file list not decodable")
	if !ok {
		return
	}
	out := conn.out[consumed:]
	vassert(len(out) >= 24 && getI32(out, 0) == int32(k), "index echo")
	r := refReceive(out, 20, nil, 700, 0, 0)
	want := []byte{0x41}
	if names[k] == s2 {
		want = []byte{0x42, 0x42}
	}
	vassert(bytesEq(r.result, want), "the sender answered the request with another file: its numbering differs from the bytewise order of the names")
	vreach("numbered")
}

func init() { verifHarnesses["HSenderNumbering"] = HSenderNumbering; verifHarnesses["HSenderNumberingDir"] = HSenderNumberingDir }
