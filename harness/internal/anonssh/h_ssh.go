package anonssh

import (
	"context"
	"errors"
	"io"
	"net"
	"strings"
	"time"

	"github.com/gokrazy/rsync/internal/rsyncdconfig"
	"github.com/gokrazy/rsync/internal/rsyncos"
	"golang.org/x/crypto/ssh"
)

// ---- stand-ins for x/crypto/ssh (trusted library) and the network ----

type vKey struct{ blob []byte }

func (k vKey) Type() string                                 { return "ssh-ed25519" }
func (k vKey) Marshal() []byte                              { return k.blob }
func (k vKey) Verify(data []byte, sig *ssh.Signature) error { return nil }

type vSigner struct{}

func (vSigner) PublicKey() ssh.PublicKey                                 { return vKey{blob: []byte("host")} }
func (vSigner) Sign(rand io.Reader, data []byte) (*ssh.Signature, error) { return nil, nil }

type vAddr struct{}

func (vAddr) Network() string { return "tcp" }
func (vAddr) String() string  { return "192.0.2.1:22" }

type vMeta struct{}

func (vMeta) User() string          { return "anon" }
func (vMeta) SessionID() []byte     { return nil }
func (vMeta) ClientVersion() []byte { return nil }
func (vMeta) ServerVersion() []byte { return nil }
func (vMeta) RemoteAddr() net.Addr  { return vAddr{} }
func (vMeta) LocalAddr() net.Addr   { return vAddr{} }

type vNetConn struct{}

func (vNetConn) Read(b []byte) (int, error)         { return 0, io.EOF }
func (vNetConn) Write(b []byte) (int, error)        { return len(b), nil }
func (vNetConn) Close() error                       { return nil }
func (vNetConn) LocalAddr() net.Addr                { return vAddr{} }
func (vNetConn) RemoteAddr() net.Addr               { return vAddr{} }
func (vNetConn) SetDeadline(t time.Time) error      { return nil }
func (vNetConn) SetReadDeadline(t time.Time) error  { return nil }
func (vNetConn) SetWriteDeadline(t time.Time) error { return nil }

type vListener struct{ served bool }

func (l *vListener) Accept() (net.Conn, error) {
	if l.served {
		return nil, net.ErrClosed
	}
	l.served = true
	return vNetConn{}, nil
}
func (l *vListener) Close() error   { return nil }
func (l *vListener) Addr() net.Addr { return vAddr{} }

// doneCtx is an already-cancelled context (the sequentialised model runs the
// shutdown goroutine of Serve at its spawn point).
type doneCtx struct{ ch chan struct{} }

func (c doneCtx) Deadline() (time.Time, bool) { return time.Time{}, false }
func (c doneCtx) Done() <-chan struct{}       { return c.ch }
func (c doneCtx) Err() error                  { return context.Canceled }
func (c doneCtx) Value(key any) any           { return nil }

// the scenario of the current harness run
var sc struct {
	key         []byte
	authResult  error
	authCalled  bool
	chanType    string
	reqs        []*ssh.Request
	command     string
	mainCalls   int
	mainArgs    []string
	rejected    bool
	accepted    bool
	replies     []bool
	chanClosed  bool
	chanWritten bool
}

type vChannel struct{}

func (vChannel) Read(b []byte) (int, error)  { return 0, io.EOF }
func (vChannel) Write(b []byte) (int, error) { sc.chanWritten = true; return len(b), nil }
func (vChannel) Close() error                { sc.chanClosed = true; return nil }
func (vChannel) CloseWrite() error           { return nil }
func (vChannel) SendRequest(name string, wantReply bool, payload []byte) (bool, error) {
	return true, nil
}
func (vChannel) Stderr() io.ReadWriter { return vRW{} }

type vRW struct{}

func (vRW) Read(b []byte) (int, error)  { return 0, io.EOF }
func (vRW) Write(b []byte) (int, error) { return len(b), nil }

type vNewChannel struct{}

func (vNewChannel) Accept() (ssh.Channel, <-chan *ssh.Request, error) {
	sc.accepted = true
	ch := make(chan *ssh.Request, 8)
	for _, r := range sc.reqs {
		ch <- r
	}
	close(ch)
	return vChannel{}, ch, nil
}
func (vNewChannel) Reject(reason ssh.RejectionReason, message string) error {
	sc.rejected = true
	return nil
}
func (vNewChannel) ChannelType() string { return sc.chanType }
func (vNewChannel) ExtraData() []byte   { return nil }

// VNewServerConn replaces ssh.NewServerConn: the handshake succeeds iff the installed
// PublicKeyCallback accepts the client's key; then one channel is opened.
func VNewServerConn(c net.Conn, config *ssh.ServerConfig) (*ssh.ServerConn, <-chan ssh.NewChannel, <-chan *ssh.Request, error) {
	sc.authCalled = true
	_, err := config.PublicKeyCallback(vMeta{}, vKey{blob: sc.key})
	sc.authResult = err
	if err != nil {
		return nil, nil, nil, errors.New("ssh: handshake failed")
	}
	chans := make(chan ssh.NewChannel, 1)
	chans <- vNewChannel{}
	close(chans)
	reqs := make(chan *ssh.Request)
	close(reqs)
	return nil, chans, reqs, nil
}

func VAddHostKey(c *ssh.ServerConfig, key ssh.Signer)     {}
func VFingerprint(k ssh.PublicKey) string                 { return "SHA256:x" }
func VDiscardRequests(in <-chan *ssh.Request)             {}
func VReply(r *ssh.Request, ok bool, payload []byte) error { sc.replies = append(sc.replies, ok); return nil }
func VSplit(s string) ([]string, error)                   { return strings.Fields(s), nil }

// VUnmarshal replaces ssh.Unmarshal for the two request payloads the server decodes.
func VUnmarshal(data []byte, out interface{}) error {
	switch o := out.(type) {
	case *execR:
		o.Command = sc.command
		return nil
	case *env:
		o.VariableName, o.VariableValue = "LC_ALL", "C"
		return nil
	}
	return errors.New("ssh: unmarshal of an unexpected type")
}

func bytesEqual(a, b []byte) bool {
	if len(a) != len(b) {
		return false
	}
	var d byte
	for i := range a {
		d |= a[i] ^ b[i]
	}
	return d == 0
}

var requestTypes = []string{"exec", "shell", "subsystem", "pty-req", "env", "x11-req"}
var channelTypes = []string{"session", "direct-tcpip", "x11", "forwarded-tcpip"}

// HSSH (C20-K / C20-R): Serve is run on one connection whose client presents a symbolic
// key blob; the listener has no key set (anonymous) or a set of nkeys symbolic blobs.
// Then one channel of symbolic type carries k requests of symbolic types.
//   - the handshake is admitted iff anonymous or the blob is in the set;
//   - the command callback runs only for channel type "session" and request type "exec";
//     other channel types are rejected, other request types get Reply(false) and the
//     channel is closed ("env" is accepted without effect).
func HSSH() {
	nkeys, k := vparam("nkeys"), vparam("k")
	sc.key = nd_bytes(3)
	sc.authCalled, sc.authResult = false, nil
	sc.mainCalls, sc.mainArgs, sc.rejected, sc.accepted, sc.replies, sc.chanClosed = 0, nil, false, false, nil, false
	l := &Listener{hostKey: vSigner{}, authorizedKeysPath: "/etc/keys"}
	inSet := false
	if nkeys >= 0 {
		l.authorizedKeys = map[string]bool{}
		for i := 0; i < nkeys; i++ {
			kb := nd_bytes(3)
			l.authorizedKeys[string(kb)] = true
			if bytesEqual(kb, sc.key) {
				inSet = true
			}
		}
	}
	sc.chanType = channelTypes[nd_range(0, len(channelTypes)-1)]
	sc.reqs = nil
	execs := 0
	firstBad := -1
	for i := 0; i < k; i++ {
		t := requestTypes[nd_range(0, len(requestTypes)-1)]
		sc.reqs = append(sc.reqs, &ssh.Request{Type: t, WantReply: nd_bool()})
		if t == "exec" {
			execs++
		} else if t != "env" && firstBad < 0 {
			firstBad = i
		}
	}
	sc.command = "rsync --server --daemon ."
	main := func(args []string, stdin io.Reader, stdout io.Writer, stderr io.Writer) error {
		sc.mainCalls++
		sc.mainArgs = args
		return nil
	}
	dc := doneCtx{ch: make(chan struct{})}
	close(dc.ch)
	osenv := &rsyncos.Env{Stdout: io.Discard, Stderr: io.Discard}
	err := Serve(dc, osenv, &vListener{}, l, &rsyncdconfig.Config{}, main)
	vassert(err == nil, "Serve failed")
	vassert(sc.authCalled, "the key callback was never consulted")
	admit := nkeys < 0 || inSet
	if admit {
		vassert(sc.authResult == nil, "a listed key (or an anonymous listener) was refused")
		vreach("admitted")
	} else {
		vassert(sc.authResult != nil, "a key that is not in authorized_keys was admitted")
		vassert(sc.mainCalls == 0 && !sc.accepted, "session activity after a refused key")
		vreach("refused")
		return
	}
	if sc.chanType != "session" {
		vassert(sc.rejected && !sc.accepted, "a channel type other than session was not rejected")
		vassert(sc.mainCalls == 0, "command run on a non-session channel")
		vreach("chan-rejected")
		return
	}
	vassert(sc.accepted, "session channel not accepted")
	vassert(sc.mainCalls == execs, "the command callback must run exactly once per exec request")
	if firstBad >= 0 {
		vassert(sc.chanClosed, "channel left open after a refused request type")
		hasFalse := false
		for _, r := range sc.replies {
			if !r {
				hasFalse = true
			}
		}
		vassert(hasFalse, "refused request type was not answered with failure")
		vreach("req-refused")
	}
	if execs > 0 {
		vassert(len(sc.mainArgs) == 4 && sc.mainArgs[0] == "rsync", "command line handed to the callback")
		vreach("exec")
	}
}

var verifHarnesses = map[string]func(){
	"HSSH": HSSH,
}
