package rsyncopts

import (
	"io"

	"github.com/gokrazy/rsync/internal/rsyncos"
)

// HPeerArgs (C08): the argument lines a daemon client (or an SSH session) sends are parsed
// by ParseArguments inside the serving process. For every option the parser's tables know
// (long and short spelling; with an attached argument of a few shapes where the option
// takes one; flags repeated 1..8 times, separately or bundled as -vvv) parsing must come back with a result or an error - never terminate the
// process or panic.
func HPeerArgs() {
	env := &rsyncos.Env{Stdout: io.Discard, Stderr: io.Discard}
	o := NewOptionsWithGokrazyDefaults(env)
	daemon := vparam("daemon") == 1
	var table []poptOption
	if daemon {
		table = o.daemonTable()
	} else {
		table = o.table()
	}
	i := nd_range(0, len(table)-1)
	opt := table[i]
	tok := opt.name()
	needsArg := opt.argInfo == POPT_ARG_STRING || opt.argInfo == POPT_ARG_INT || opt.argInfo == POPT_ARG_LONG
	var args []string
	args = append(args, "--server")
	if daemon {
		args = append(args, "--daemon")
	}
	if needsArg {
		argv := []string{"help", "1", "x=y", ""}[nd_range(0, 3)]
		if opt.longName != "" {
			args = append(args, tok+"="+argv)
		} else {
			args = append(args, tok, argv)
		}
	} else {
		// flags may be repeated (-vvvvvv, --verbose --verbose ...): counters index tables
		rep := nd_range(1, 8)
		if opt.shortName != "" && nd_bool() {
			b := "-"
			for k := 0; k < rep; k++ {
				b += opt.shortName
			}
			args = append(args, b)
		} else {
			for k := 0; k < rep; k++ {
				args = append(args, tok)
			}
		}
	}
	args = append(args, ".", "mod/")
	pc := NewContext(NewOptionsWithGokrazyDefaults(env))
	err := pc.ParseArguments(env, args)
	if err != nil {
		vreach("error")
	} else {
		vreach("ok")
	}
}

func init() { verifHarnesses["HPeerArgs"] = HPeerArgs }
