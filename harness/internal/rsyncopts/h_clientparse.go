package rsyncopts

import (
	"io"

	"github.com/gokrazy/rsync/internal/rsyncos"
)

type refClientOpts struct {
	recurse, links, perms, times, gid, uid, devices, specials bool
	checksum, ignoreTimes, dryRun, del                        bool
	rules                                                     []string
}

// refApply folds one command-line token into the reference option record (semantics of
// the rsync manual: -a = -rlptgoD, -D = --devices --specials, --no-OPTION turns OPTION off,
// later options override earlier ones).
func refApply(o *refClientOpts, tok string) {
	switch tok {
	case "-a":
		o.recurse, o.links, o.perms, o.times, o.gid, o.uid, o.devices, o.specials = true, true, true, true, true, true, true, true
	case "-r":
		o.recurse = true
	case "--no-r":
		o.recurse = false
	case "-l":
		o.links = true
	case "--no-l", "--no-links":
		o.links = false
	case "-p":
		o.perms = true
	case "--no-p", "--no-perms":
		o.perms = false
	case "-t":
		o.times = true
	case "--no-t", "--no-times":
		o.times = false
	case "-g":
		o.gid = true
	case "--no-g":
		o.gid = false
	case "-o":
		o.uid = true
	case "--no-o":
		o.uid = false
	case "-D":
		o.devices, o.specials = true, true
	case "--no-D":
		o.devices, o.specials = false, false
	case "--devices":
		o.devices = true
	case "--no-devices":
		o.devices = false
	case "--specials":
		o.specials = true
	case "--no-specials":
		o.specials = false
	case "-c":
		o.checksum = true
	case "-I":
		o.ignoreTimes = true
	case "-n":
		o.dryRun = true
	case "--delete":
		o.del = true
	case "--exclude=x":
		o.rules = append(o.rules, "- x")
	case "--include=y":
		o.rules = append(o.rules, "+ y")
	case "-f- z":
		o.rules = append(o.rules, "- z")
	}
}

var clientVocabulary = []string{
	"-a", "-r", "--no-r", "-l", "--no-l", "--no-links", "-p", "--no-p", "--no-perms", "-t", "--no-t", "--no-times",
	"-g", "--no-g", "-o", "--no-o", "-D", "--no-D", "--devices", "--no-devices", "--specials", "--no-specials",
	"-c", "-I", "-n", "--delete", "--exclude=x", "--include=y", "-f- z",
}

// HClientParse (C14/C13): the client's own reading of its command line. k tokens chosen
// symbolically from the accepted transfer-option spellings (incl. -a, -D, the --no-* forms,
// --exclude/--include/-f) are parsed by the real parser; every option field that the
// session depends on must equal the reference reading of the same tokens.
func HClientParse() {
	k := vparam("k")
	env := &rsyncos.Env{Stdout: io.Discard, Stderr: io.Discard}
	var args []string
	var ref refClientOpts
	for i := 0; i < k; i++ {
		tok := clientVocabulary[nd_range(0, len(clientVocabulary)-1)]
		args = append(args, tok)
		refApply(&ref, tok)
	}
	args = append(args, "src/", "dst/")
	pc := NewContext(NewOptions(env))
	err := pc.ParseArguments(env, args)
	vassert(err == nil, "accepted option spelling rejected")
	if err != nil {
		return
	}
	o := pc.Options
	vassert(o.Recurse() == ref.recurse, "-r")
	vassert(o.PreserveLinks() == ref.links, "-l")
	vassert(o.PreservePerms() == ref.perms, "-p")
	vassert(o.PreserveMTimes() == ref.times, "-t")
	vassert(o.PreserveGid() == ref.gid, "-g")
	vassert(o.PreserveUid() == ref.uid, "-o")
	vassert(o.PreserveDevices() == ref.devices, "--devices")
	vassert(o.PreserveSpecials() == ref.specials, "--specials")
	vassert(o.AlwaysChecksum() == ref.checksum, "-c")
	vassert(o.IgnoreTimes() == ref.ignoreTimes, "-I")
	vassert(o.DryRun() == ref.dryRun, "-n")
	vassert(o.DeleteMode() == ref.del, "--delete")
	rules := o.FilterRules()
	vassert(len(rules) == len(ref.rules), "number of filter rules")
	if len(rules) == len(ref.rules) {
		for i := range rules {
			vassert(rules[i] == ref.rules[i], "filter rule text / order")
		}
	}
	vassert(len(pc.RemainingArgs) == 2, "remaining arguments")
	vreach("done")
}

func init() { verifHarnesses["HClientParse"] = HClientParse }
