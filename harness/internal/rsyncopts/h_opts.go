package rsyncopts

import "github.com/gokrazy/rsync/internal/rsyncos"

// VerifFlags is the harness-visible subset of option fields.
type VerifFlags struct {
	Server, Sender, DryRun, Recurse                              bool
	XferDirs                                                     int
	Links, Perms, Times, Uid, Gid, Devices, Specials, HardLinks bool
	Checksum, IgnoreTimes, Delete, Verbose                       bool
	Rules                                                        []string
}

// VerifOptions builds an Options value directly (no parsing).
func VerifOptions(f VerifFlags) *Options {
	o := NewOptionsWithGokrazyDefaults(&rsyncos.Env{})
	b := func(x bool) int {
		if x {
			return 1
		}
		return 0
	}
	o.am_server = b(f.Server)
	o.am_sender = b(f.Sender)
	o.dry_run = b(f.DryRun)
	o.recurse = b(f.Recurse)
	o.xfer_dirs = f.XferDirs
	o.preserve_links = b(f.Links)
	o.preserve_perms = b(f.Perms)
	o.preserve_mtimes = b(f.Times)
	o.preserve_uid = b(f.Uid)
	o.preserve_gid = b(f.Gid)
	o.preserve_devices = b(f.Devices)
	o.preserve_specials = b(f.Specials)
	o.preserve_hard_links = b(f.HardLinks)
	o.always_checksum = b(f.Checksum)
	o.ignore_times = b(f.IgnoreTimes)
	o.delete_mode = b(f.Delete)
	o.verbose = b(f.Verbose)
	o.filterRules = f.Rules
	return o
}
