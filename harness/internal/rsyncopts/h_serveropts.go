package rsyncopts

import (
	"io"

	"github.com/gokrazy/rsync/internal/rsyncos"
)

func b2i(b bool) int {
	if b {
		return 1
	}
	return 0
}

// HServerOptions (C14-a): for every subset of the transfer options and both directions,
// the argument vector the client builds (ServerOptions) is parsed by the real server-side
// parser into the same value for every option that changes the wire format or what the
// remote side must do.
func HServerOptions() {
	env := &rsyncos.Env{Stdout: io.Discard, Stderr: io.Discard}
	o := NewOptionsWithGokrazyDefaults(env)
	push := nd_bool() // client is the sender
	o.am_sender = b2i(push)
	o.dry_run = b2i(nd_bool())
	o.preserve_links = b2i(nd_bool())
	lite := vparam("lite") == 1 // quick tier: some options vary together
	o.preserve_uid = b2i(nd_bool())
	if lite {
		o.preserve_gid = o.preserve_uid
	} else {
		o.preserve_gid = b2i(nd_bool())
	}
	o.preserve_devices = b2i(nd_bool())
	o.preserve_specials = o.preserve_devices
	if vparam("split") == 1 {
		o.preserve_specials = b2i(nd_bool())
	}
	o.preserve_mtimes = b2i(nd_bool())
	if lite {
		o.preserve_perms = o.preserve_mtimes
	} else {
		o.preserve_perms = b2i(nd_bool())
	}
	o.recurse = b2i(nd_bool())
	if o.recurse != 0 {
		o.xfer_dirs = 1
	}
	o.always_checksum = b2i(nd_bool())
	o.ignore_times = b2i(nd_bool())
	if !lite {
		o.update_only = b2i(nd_bool())
	}
	if vparam("delete") == 1 {
		o.delete_mode = b2i(nd_bool())
	}
	args := o.ServerOptions()
	args = append(args, ".", "mod/path")

	pc := NewContext(NewOptionsWithGokrazyDefaults(env))
	err := pc.ParseArguments(env, args)
	vassert(err == nil, "the server rejects the arguments the client built")
	if err != nil {
		return
	}
	s := pc.Options
	vassert(s.am_server != 0, "--server")
	vassert((s.am_sender != 0) == !push, "direction (--sender)")
	vassert((s.dry_run != 0) == (o.dry_run != 0), "-n does not reach the server")
	vassert((s.preserve_links != 0) == (o.preserve_links != 0), "-l does not reach the server")
	vassert((s.preserve_uid != 0) == (o.preserve_uid != 0), "-o does not reach the server")
	vassert((s.preserve_gid != 0) == (o.preserve_gid != 0), "-g does not reach the server")
	vassert((s.preserve_devices != 0) == (o.preserve_devices != 0), "--devices differs on the server")
	vassert((s.preserve_specials != 0) == (o.preserve_specials != 0), "--specials differs on the server")
	vassert((s.preserve_mtimes != 0) == (o.preserve_mtimes != 0), "-t does not reach the server")
	vassert((s.preserve_perms != 0) == (o.preserve_perms != 0), "-p does not reach the server")
	vassert((s.recurse != 0) == (o.recurse != 0), "-r does not reach the server")
	vassert((s.xfer_dirs > 0) == (o.xfer_dirs > 0), "directory transfer mode differs on the server")
	vassert((s.always_checksum != 0) == (o.always_checksum != 0), "-c does not reach the server")
	vassert((s.ignore_times != 0) == (o.ignore_times != 0), "-I does not reach the server")
	vassert((s.update_only != 0) == (o.update_only != 0), "-u does not reach the server")
	if push {
		// the receiving server must know about --delete
		vassert((s.delete_mode != 0) == (o.delete_mode != 0), "--delete does not reach the receiving server")
	}
	if len(pc.RemainingArgs) == 2 {
		vreach("args")
	}
	vreach("done")
}

var verifHarnesses = map[string]func(){
	"HServerOptions": HServerOptions,
}
