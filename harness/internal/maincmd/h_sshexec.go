package maincmd

import (
	"context"
	"io"

	"github.com/gokrazy/rsync/internal/rsyncdconfig"
	"github.com/gokrazy/rsync/internal/rsyncopts"
	"github.com/gokrazy/rsync/internal/rsyncos"
	"github.com/gokrazy/rsync/internal/rsyncstats"
	"github.com/gokrazy/rsync/internal/vfsx"
	"github.com/gokrazy/rsync/rsyncd"
)

// markers set by the stand-ins below (symbolic mode: installed as redirects)
var reached struct {
	daemon, commandServer, client, listen bool
}

func VDaemonConn(s *rsyncd.Server, ctx context.Context, conn *rsyncd.Conn) error {
	reached.daemon = true
	return nil
}

func VInternalHandleConn(s *rsyncd.Server, ctx context.Context, conn *rsyncd.Conn, module *rsyncd.Module, pc *rsyncopts.Context) error {
	reached.commandServer = true
	return nil
}

func VClientMain(ctx context.Context, osenv *rsyncos.Env, opts *rsyncopts.Options, remaining []string) (*rsyncstats.TransferStats, error) {
	reached.client = true
	return nil, nil
}

func VNamespace(osenv *rsyncos.Env, modules []rsyncd.Module, listen string) error {
	reached.listen = true
	return errIsParent
}

var execVocabulary = []string{
	"--server", "--daemon", "--sender", "-r", "-vlogDtpre.iLsfxC", "-e", "sh", ".", "/etc/", "host:/x", "--gokr.modulemap=x=/etc", "--delete",
}

// HSSHExec (C20-D): what a command line requested over an SSH session can do. The command
// line is "rsync" followed by k tokens chosen symbolically from the option parser's
// vocabulary (with/without --server/--daemon/--sender, -e, hostspec- and path-looking
// arguments). It is run through the same function the SSH listeners install as their
// command callback. The only continuation allowed is the daemon protocol on the configured
// modules: command-mode servers on arbitrary paths, client-mode transfers (remote shell
// commands), MkdirAll on client-supplied paths and starting listeners must be unreachable.
func HSSHExec() {
	k := vparam("k")
	fsys := vfsx.New()
	defer fsys.Cleanup()
	args := []string{"rsync"}
	if vparam("free0") == 1 {
		// the program name is client-chosen text as well
		args[0] = execVocabulary[nd_range(0, len(execVocabulary)-1)]
	}
	for i := 0; i < k; i++ {
		args = append(args, execVocabulary[nd_range(0, len(execVocabulary)-1)])
	}
	reached.daemon, reached.commandServer, reached.client, reached.listen = false, false, false, false
	cfg := &rsyncdconfig.Config{
		Listeners: []rsyncdconfig.Listener{{AnonSSH: "localhost:0"}},
		Modules:   []rsyncd.Module{{Name: "m", Path: "/srv/m"}},
	}
	err := sshSessionMain(context.Background(), cfg, args, vRW{}, vRW{}, io.Discard)
	_ = err
	vassert(!reached.commandServer, "an SSH session started a command-mode server on client-chosen paths")
	vassert(!reached.client, "an SSH session started a client-mode transfer (remote shell / outbound connection)")
	vassert(!reached.listen, "an SSH session reached the listening-daemon start-up")
	if vsymbolic() {
		for _, ev := range fsys.Events {
			if ev.Ambient && ev.Mutates {
				vassert(false, "an SSH session made the server create or change a path: "+ev.Op)
			}
		}
	}
	if reached.daemon {
		vreach("daemon")
	} else {
		vreach("refused")
	}
}

type vRW struct{}

func (vRW) Read(b []byte) (int, error)  { return 0, io.EOF }
func (vRW) Write(b []byte) (int, error) { return len(b), nil }

func init() { verifHarnesses["HSSHExec"] = HSSHExec }
