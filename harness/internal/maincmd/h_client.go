package maincmd

import (
	"context"
	"io"

	"github.com/gokrazy/rsync/internal/rsyncopts"
	"github.com/gokrazy/rsync/internal/rsyncos"
	"github.com/gokrazy/rsync/internal/vfsx"
	"github.com/gokrazy/rsync/rsyncd"
)

func muxData(b []byte, payload []byte) []byte {
	n := len(payload)
	b = append(b, byte(n), byte(n>>8), byte(n>>16), 7)
	return append(b, payload...)
}

// HClientSendFilter (C13, push/local arrangement): when the client is the sender, the
// user's exclude rules must shape the file list it sends.
func HClientSendFilter() {
	fsys := vfsx.New()
	defer fsys.Cleanup()
	fsys.Add(&vfsx.Node{Name: "a", Kind: vfsx.KReg, Perm: 0o644, Data: []byte{1}})
	fsys.Add(&vfsx.Node{Name: "x", Kind: vfsx.KReg, Perm: 0o644, Data: []byte{2}})
	src := "/src/"
	if p := fsys.RealPath(); p != "" {
		src = p + "/"
	}
	vfsx.AmbientRoots[src] = "."
	excl := nd_bool()
	var rules []string
	if excl {
		rules = []string{"- x"}
	}
	opts := rsyncopts.VerifOptions(rsyncopts.VerifFlags{Sender: true, Recurse: true, XferDirs: 1, Rules: rules})
	// the server's side of the conversation: version, seed, then (multiplexed) the two
	// phase markers and the final goodbye
	var in []byte
	in = putI32(in, 27)
	in = putI32(in, nd_i32())
	in = muxData(in, putI32(nil, -1))
	in = muxData(in, putI32(nil, -1))
	in = muxData(in, putI32(nil, -1))
	conn := newVconn(in)
	osenv := &rsyncos.Env{Stdout: io.Discard, Stderr: io.Discard, DontRestrict: true}
	_, err := ClientRun(osenv, opts, conn, []string{src}, true)
	vassert(err == nil, "client-side sender failed")
	if err != nil {
		return
	}
	out := conn.out
	vassert(len(out) > 4 && getI32(out, 0) == 27, "protocol version")
	ents, _, _, ok := refDecodeList(out[4:], refOpts{}, 4)
	vassert(ok, "file list not decodable")
	if !ok {
		return
	}
	hasA, hasX := false, false
	for _, e := range ents {
		if e.Name == "a" {
			hasA = true
		}
		if e.Name == "x" {
			hasX = true
		}
	}
	vassert(hasA, "an entry no rule excludes is missing")
	if excl {
		vassert(!hasX, "the client-side sender ignored the user's exclude rule")
		vreach("excluded")
	} else {
		vassert(hasX, "entry missing without any rule")
		vreach("norules")
	}
}

var verifHarnesses = map[string]func(){
	"HClientSendFilter": HClientSendFilter,
}

// demux strips the server's multiplex framing and returns the concatenated data payloads.
func demux(b []byte) ([]byte, bool) {
	var out []byte
	for pos := 0; pos < len(b); {
		if pos+4 > len(b) {
			return nil, false
		}
		n := int(b[pos]) | int(b[pos+1])<<8 | int(b[pos+2])<<16
		tag := b[pos+3]
		pos += 4
		if pos+n > len(b) {
			return nil, false
		}
		if tag == 7 {
			out = append(out, b[pos:pos+n]...)
		}
		pos += n
	}
	return out, true
}

// HPush (C14 / C09): a push of a directory tree without regular-file transfers
// (directories only) through the real option plumbing: the client-side sender's byte
// stream, produced under the options the user gave, is fed to a receiving server that
// was started with exactly the arguments the client builds (ServerOptions). Both ends
// must agree on the stream (the server consumes all of it and fails nowhere), the
// server's replies must be what the client was given, and --delete must take effect on
// the server.
func HPush() {
	fsys := vfsx.New()
	defer fsys.Cleanup()
	fsys.Add(&vfsx.Node{Name: "src", Kind: vfsx.KDir, Perm: 0o755})
	fsys.Add(&vfsx.Node{Name: "src/d", Kind: vfsx.KDir, Perm: 0o755})
	fsys.Add(&vfsx.Node{Name: "dst", Kind: vfsx.KDir, Perm: 0o755})
	fsys.Add(&vfsx.Node{Name: "dst/extra", Kind: vfsx.KReg, Perm: 0o644, Data: []byte{1}})
	src, dst := "/m/src/", "/m/dst"
	if p := fsys.RealPath(); p != "" {
		src, dst = p+"/src/", p+"/dst"
	}
	vfsx.AmbientRoots[src] = "src"
	vfsx.AmbientRoots[dst] = "dst"
	del := nd_bool()
	fl := rsyncopts.VerifFlags{Sender: true, Recurse: true, XferDirs: 1, Delete: del,
		Perms: nd_bool(), Times: nd_bool(), Links: nd_bool(), Uid: nd_bool(), Gid: nd_bool(), Devices: nd_bool(), Checksum: nd_bool()}
	fl.Specials = fl.Devices
	if nd_bool() {
		fl.Rules = []string{"- zz"}
	}
	opts := rsyncopts.VerifOptions(fl)
	seed := nd_i32()
	var in []byte
	in = putI32(in, 27)
	in = putI32(in, seed)
	in = muxData(in, putI32(nil, -1))
	in = muxData(in, putI32(nil, -1))
	in = muxData(in, putI32(nil, -1))
	cconn := newVconn(in)
	osenv := &rsyncos.Env{Stdout: io.Discard, Stderr: io.Discard, DontRestrict: true}
	_, err := ClientRun(osenv, opts, cconn, []string{src}, true)
	vassert(err == nil, "client-side sender failed")
	if err != nil {
		return
	}

	// the server, started the way the client starts it
	args := append(opts.ServerOptions(), ".", "/")
	srv, err := rsyncd.NewServer([]rsyncd.Module{{Name: "m", Path: dst, Writable: true}}, rsyncd.DontRestrict(), rsyncd.WithStderr(io.Discard))
	vassert(err == nil, "NewServer")
	if err != nil {
		return
	}
	sconn := newVconn(cconn.out)
	mod := rsyncd.Module{Name: "m", Path: dst, Writable: true}
	err = srv.HandleConnArgs(context.Background(), rsyncd.NewConnection(sconn, sconn, "peer"), &mod, args)
	vassert(err == nil, "the receiving server failed on the client's stream (desynchronisation)")
	if err != nil {
		return
	}
	vassert(sconn.pos == len(sconn.in), "the server did not consume the whole client stream")
	// server replies: version, seed, then multiplexed -1 -1 -1
	so := sconn.out
	vassert(len(so) >= 8 && getI32(so, 0) == 27, "server protocol version")
	data, ok := demux(so[8:])
	vassert(ok, "server frames")
	vassert(len(data) == 12 && getI32(data, 0) == -1 && getI32(data, 4) == -1 && getI32(data, 8) == -1, "server replies differ from the ones the client was given")
	d := fsys.Get("dst/d")
	vassert(d.Kind == vfsx.KDir, "directory not created on the server")
	extra := fsys.Get("dst/extra")
	if del {
		vassert(extra.Kind == vfsx.KAbsent, "--delete had no effect on the receiving server")
		vreach("deleted")
	} else {
		vassert(extra.Kind == vfsx.KReg, "extraneous file removed without --delete")
		vreach("kept")
	}
}

func init() { verifHarnesses["HPush"] = HPush }
