package maincmd

import (
	"errors"
	"io"

	"github.com/gokrazy/rsync/internal/receiver"
	"github.com/gokrazy/rsync/internal/rsyncopts"
	"github.com/gokrazy/rsync/internal/rsyncos"
	"github.com/gokrazy/rsync/internal/vfsx"
)

var capturedOpts *receiver.TransferOpts

func VCaptureFileList(rt *receiver.Transfer) ([]*receiver.File, error) {
	c := *rt.Opts
	capturedOpts = &c
	return nil, errors.New("captured")
}

// HClientMapping (C14): the receiving client's view of the options (pull): the
// TransferOpts ClientRun hands to its receiver must agree with the parsed options.
func HClientMapping() {
	fsys := vfsx.New()
	defer fsys.Cleanup()
	fsys.Add(&vfsx.Node{Name: "dst", Kind: vfsx.KDir, Perm: 0o755})
	vfsx.AmbientRoots["/m/dst"] = "dst"
	fl := rsyncopts.VerifFlags{Recurse: true, XferDirs: 1,
		DryRun: nd_bool(), Links: nd_bool(), Perms: nd_bool(), Times: nd_bool(), Uid: nd_bool(), Gid: nd_bool(),
		Devices: nd_bool(), Specials: nd_bool(), Checksum: nd_bool(), IgnoreTimes: nd_bool(), Delete: nd_bool()}
	opts := rsyncopts.VerifOptions(fl)
	var in []byte
	in = putI32(in, 27)
	in = putI32(in, 7)
	conn := newVconn(in)
	osenv := &rsyncos.Env{Stdout: io.Discard, Stderr: io.Discard, DontRestrict: true}
	capturedOpts = nil
	ClientRun(osenv, opts, conn, []string{"/m/dst"}, true)
	vassert(capturedOpts != nil, "the receiving client never got as far as the file list")
	if capturedOpts == nil {
		return
	}
	o := capturedOpts
	vassert(o.DryRun == fl.DryRun, "-n lost between the options and the receiver")
	vassert(o.DeleteMode == fl.Delete, "--delete lost between the options and the receiver")
	vassert(o.PreserveLinks == fl.Links, "-l lost between the options and the receiver")
	vassert(o.PreservePerms == fl.Perms, "-p lost between the options and the receiver")
	vassert(o.PreserveTimes == fl.Times, "-t lost between the options and the receiver")
	vassert(o.PreserveUid == fl.Uid, "-o lost between the options and the receiver")
	vassert(o.PreserveGid == fl.Gid, "-g lost between the options and the receiver")
	vassert(o.PreserveDevices == fl.Devices, "--devices lost between the options and the receiver")
	vassert(o.PreserveSpecials == fl.Specials, "--specials lost between the options and the receiver")
	vassert(o.AlwaysChecksum == fl.Checksum, "-c lost between the options and the receiver")
	vassert(o.IgnoreTimes == fl.IgnoreTimes, "-I lost between the options and the receiver")
	vreach("mapped")
}

func init() { verifHarnesses["HClientMapping"] = HClientMapping }
