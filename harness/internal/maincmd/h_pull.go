package maincmd

import (
	"encoding/binary"
	"io"

	"github.com/gokrazy/rsync/internal/rsyncopts"
	"github.com/gokrazy/rsync/internal/rsyncos"
	"github.com/gokrazy/rsync/internal/vfsx"
	"github.com/mmcloughlin/md4"
)

func sumOf(seed int32, data []byte) []byte {
	h := md4.New()
	binary.Write(h, binary.LittleEndian, seed)
	h.Write(data)
	return h.Sum(nil)
}

// HClientPull (C01 pull arrangement / C17): the real client (ClientRun as receiver, with
// its own multiplex reader and buffering) pulls one new file of N bytes from a server
// stream that is framed the way a server may legally frame it: the file's literal token
// and its N data bytes arrive in ONE data frame (N = 40000, i.e. larger than 32 KiB and
// smaller than the 256 KiB frame limit), with info frames in between. The session must
// succeed and the destination must hold exactly the file's bytes.
func HClientPull() {
	n := vparam("n")
	fsys := vfsx.New()
	defer fsys.Cleanup()
	fsys.Add(&vfsx.Node{Name: "dst", Kind: vfsx.KDir, Perm: 0o755})
	dst := "/m/dst"
	if p := fsys.RealPath(); p != "" {
		dst = p + "/dst"
	}
	vfsx.AmbientRoots[dst] = "dst"
	data := make([]byte, n)
	data[0], data[n-1] = nd_u8(), nd_u8()
	seed := nd_i32()

	var in []byte
	in = putI32(in, 27)
	in = putI32(in, seed)
	// file list: "." and "f"
	var zero refEntry
	top := refEntry{Name: ".", Mode: 0o040755, Length: 4096}
	fe := refEntry{Name: "f", Mode: 0o100644, Length: int64(n), Mtime: 1000}
	var fl []byte
	fl = refEncodeEntry(fl, &top, &zero, refChoice{LongName: true}, refOpts{})
	fl = refEncodeEntry(fl, &fe, &top, refChoice{LongName: true}, refOpts{})
	fl = refEncodeTail(fl, refOpts{}, 0)
	in = muxData(in, fl)
	if nd_bool() {
		in = append(in, 3, 0, 0, 9, 'h', 'i', '\n') // an info frame
	}
	// the file: index + header in one frame, then token and data coalesced in one frame
	var hdr []byte
	hdr = putI32(hdr, 1) // index of "f" in the sorted list (".", "f")
	hdr = putI32(hdr, 0)
	hdr = putI32(hdr, 0)
	hdr = putI32(hdr, 0)
	hdr = putI32(hdr, 0)
	in = muxData(in, hdr)
	big := putI32(nil, int32(n))
	big = append(big, data...)
	in = muxData(in, big)
	var tail []byte
	tail = putI32(tail, 0)
	tail = append(tail, sumOf(seed, data)...)
	tail = putI32(tail, -1)
	tail = putI32(tail, -1)
	tail = putI32(tail, 10) // stats: read, written, size
	tail = putI32(tail, 20)
	tail = putI32(tail, int32(n))
	in = muxData(in, tail)
	conn := newVconn(in)
	opts := rsyncopts.VerifOptions(rsyncopts.VerifFlags{Recurse: true, XferDirs: 1, Times: nd_bool()})
	osenv := &rsyncos.Env{Stdout: io.Discard, Stderr: io.Discard, DontRestrict: true}
	_, err := ClientRun(osenv, opts, conn, []string{dst}, true)
	vassert(err == nil, "a pull of one file failed although the server stream is well formed")
	if err != nil {
		return
	}
	got := fsys.Get("dst/f")
	vassert(got.Kind == vfsx.KReg, "file missing after a successful pull")
	vassert(len(got.Data) == n, "file length after pull")
	if len(got.Data) == n {
		vassert(got.Data[0] == data[0] && got.Data[n-1] == data[n-1], "file content after pull")
	}
	// what the client sent: version, empty filter list, the request for index 1, -1, -1, goodbye
	out := conn.out
	vassert(len(out) >= 8+20+12 && getI32(out, 0) == 27 && getI32(out, 4) == 0, "client preamble")
	vassert(getI32(out, 8) == 1, "client requested the wrong index")
	vassert(conn.pos == len(in), "client did not consume the whole server stream")
	vreach("pulled")
}

func init() { verifHarnesses["HClientPull"] = HClientPull }
