// Package vfsx is the file-system model used by the harnesses (overlay-only package).
//
// In symbolic mode the methods of *os.Root, *os.File, renameio and a few unix calls
// are redirected to the functions in this package; the model keeps a flat table of
// nodes (path -> node) and an event log of every operation. In native mode (replay)
// the same API builds a real temporary directory and a real *os.Root, and Get()
// inspects the real file system.
package vfsx

import (
	"io"
	"io/fs"
	"os"
	"path"
	"strings"
	"syscall"
	"time"

	"github.com/google/renameio/v2"
	"golang.org/x/sys/unix"
)

type Kind int

const (
	KAbsent Kind = iota
	KReg
	KDir
	KLink
	KFifo
	KSock
	KChr
	KBlk
)

type Node struct {
	Name   string // clean path relative to the model root ("." is the root)
	Kind   Kind
	Perm   uint32
	Uid    uint32
	Gid    uint32
	Sec    int64 // mtime seconds
	Nsec   int64 // mtime nanoseconds
	Data   []byte
	Target string
	Rdev   uint64
	Temp   bool // created by NewPendingFile (separately named temporary file)
	Gone   bool
}

type Event struct {
	Op      string // lstat open read mkdir remove removeall chmod chtimes chown readlink symlink rename create write cleanup mknod mkfifo bind openroot ambient
	Path    string
	Path2   string
	Mutates bool
	Ambient bool // not performed through a root handle
	Arg     int64
	// Rejected: the root handle refused the name (escape, absolute path, missing parent);
	// nothing was touched.
	Rejected bool
}

type FS struct {
	Nodes  []*Node
	Events []Event
	real   string // native mode: temp dir holding the tree
	// fault injection / observation hooks
	OnEvent func(fsys *FS, ev Event)
}

type rootInfo struct {
	fs  *FS
	dir string // clean path of the root inside the model ("." = model root)
	abs string // the ambient path string it was opened with
}

type fileInfo struct {
	fs      *FS
	node    *Node
	off     int64
	pending bool
	fd      int
	closed  bool
}

type pendInfo struct {
	fs    *FS
	root  *rootInfo
	dest  string
	tmp   *Node
	done  bool
	file  *os.File
	replaceOnClose bool
}

var (
	roots    = map[*os.Root]*rootInfo{}
	files    = map[*os.File]*fileInfo{}
	pendings = map[*renameio.PendingFile]*pendInfo{}
	fds      = map[int]*fileInfo{}
	nextFd   = 100
	// Cur is the model all ambient calls are attributed to.
	Cur *FS
	// Ambient maps ambient path strings (as passed to os.OpenRoot) to model directories.
	pendingRoot *os.Root
)

func vsym() bool { return vsymbolic() }

// New creates an empty model with a root directory.
func New() *FS {
	f := &FS{}
	f.Nodes = append(f.Nodes, &Node{Name: ".", Kind: KDir, Perm: 0o755})
	Cur = f
	roots = map[*os.Root]*rootInfo{}
	files = map[*os.File]*fileInfo{}
	pendings = map[*renameio.PendingFile]*pendInfo{}
	fds = map[int]*fileInfo{}
	if !vsym() {
		d, err := os.MkdirTemp("", "vfsx-")
		if err != nil {
			panic(err)
		}
		f.real = d
	}
	return f
}

// Cleanup removes the native temp dir.
func (f *FS) Cleanup() {
	if f.real != "" {
		filepathWalkChmod(f.real)
		os.RemoveAll(f.real)
	}
}

func filepathWalkChmod(root string) {
	// make everything removable again
	fs.WalkDir(os.DirFS(root), ".", func(p string, d fs.DirEntry, err error) error {
		if err == nil && d.IsDir() {
			os.Chmod(root+"/"+p, 0o755)
		}
		return nil
	})
}

func (f *FS) log(ev Event) {
	f.Events = append(f.Events, ev)
	if f.OnEvent != nil {
		f.OnEvent(f, ev)
	}
}

// find returns the live node with that clean name, or nil.
func (f *FS) find(name string) *Node {
	for _, n := range f.Nodes {
		if !n.Gone && n.Name == name {
			return n
		}
	}
	return nil
}

// Add places a node into the pre-state (parents must be added first).
func (f *FS) Add(n *Node) *Node {
	f.Nodes = append(f.Nodes, n)
	if f.real != "" {
		p := f.real + "/" + n.Name
		switch n.Kind {
		case KReg:
			if err := os.WriteFile(p, n.Data, fs.FileMode(n.Perm)|0o200); err != nil {
				panic(err)
			}
			os.Chmod(p, fs.FileMode(n.Perm))
			os.Chtimes(p, time.Unix(n.Sec, n.Nsec), time.Unix(n.Sec, n.Nsec))
		case KDir:
			os.Mkdir(p, 0o755)
			os.Chmod(p, fs.FileMode(n.Perm))
			os.Chtimes(p, time.Unix(n.Sec, n.Nsec), time.Unix(n.Sec, n.Nsec))
		case KLink:
			os.Symlink(n.Target, p)
		case KFifo:
			syscall.Mknod(p, syscall.S_IFIFO|0o600, 0)
		case KSock:
			syscall.Mknod(p, syscall.S_IFSOCK|0o600, 0)
		case KChr:
			syscall.Mknod(p, syscall.S_IFCHR|0o600, int(n.Rdev))
		case KBlk:
			syscall.Mknod(p, syscall.S_IFBLK|0o600, int(n.Rdev))
		}
		if n.Kind != KLink {
			os.Chmod(p, fs.FileMode(n.Perm))
			os.Chtimes(p, time.Unix(n.Sec, n.Nsec), time.Unix(n.Sec, n.Nsec))
		}
		os.Lchown(p, int(n.Uid), int(n.Gid))
	}
	return n
}

// Root returns the destination root handle for the model directory dir ("." for the top).
func (f *FS) Root(dir string) *os.Root {
	if f.real != "" {
		r, err := os.OpenRoot(f.real + "/" + dir)
		if err != nil {
			panic(err)
		}
		return r
	}
	r := new(os.Root)
	roots[r] = &rootInfo{fs: f, dir: dir, abs: "/model/" + dir}
	return r
}

// RealPath is the native path of the model root ("" in symbolic mode).
func (f *FS) RealPath() string { return f.real }

// Get returns a snapshot of the node at name (Kind == KAbsent when missing).
func (f *FS) Get(name string) Node {
	if f.real == "" {
		if n := f.find(name); n != nil {
			return *n
		}
		return Node{Name: name}
	}
	p := f.real + "/" + name
	fi, err := os.Lstat(p)
	if err != nil {
		return Node{Name: name}
	}
	n := Node{Name: name, Perm: uint32(fi.Mode().Perm()), Sec: fi.ModTime().Unix(), Nsec: int64(fi.ModTime().Nanosecond())}
	if st, ok := fi.Sys().(*syscall.Stat_t); ok {
		n.Uid, n.Gid, n.Rdev = st.Uid, st.Gid, uint64(st.Rdev)
	}
	switch {
	case fi.Mode().IsRegular():
		n.Kind = KReg
		n.Data, _ = os.ReadFile(p)
		if n.Data == nil {
			// unreadable (perm 0): read as owner after chmod
			os.Chmod(p, 0o600)
			n.Data, _ = os.ReadFile(p)
			os.Chmod(p, fi.Mode().Perm())
		}
	case fi.Mode().IsDir():
		n.Kind = KDir
	case fi.Mode()&fs.ModeSymlink != 0:
		n.Kind = KLink
		n.Target, _ = os.Readlink(p)
	case fi.Mode()&fs.ModeNamedPipe != 0:
		n.Kind = KFifo
	case fi.Mode()&fs.ModeSocket != 0:
		n.Kind = KSock
	case fi.Mode()&fs.ModeCharDevice != 0:
		n.Kind = KChr
	case fi.Mode()&fs.ModeDevice != 0:
		n.Kind = KBlk
	}
	return n
}

// Names lists the live entries (symbolic mode) or walks the real tree (native).
func (f *FS) Names() []string {
	var out []string
	if f.real == "" {
		for _, n := range f.Nodes {
			if !n.Gone && n.Name != "." {
				out = append(out, n.Name)
			}
		}
		return out
	}
	fs.WalkDir(os.DirFS(f.real), ".", func(p string, d fs.DirEntry, err error) error {
		if err == nil && p != "." {
			out = append(out, p)
		}
		return nil
	})
	return out
}

// MutationCount counts mutating events (symbolic mode only).
func (f *FS) MutationCount() int {
	c := 0
	for _, e := range f.Events {
		if e.Mutates {
			c++
		}
	}
	return c
}

func (f *FS) AmbientCount() int {
	c := 0
	for _, e := range f.Events {
		if e.Ambient {
			c++
		}
	}
	return c
}

// --- path resolution relative to a root ---

var errEscapes = &fs.PathError{Op: "openat", Path: "", Err: errPathEscapes{}}

type errPathEscapes struct{}

func (errPathEscapes) Error() string { return "path escapes from parent" }

func notExist(op, name string) error {
	return &fs.PathError{Op: op, Path: name, Err: fs.ErrNotExist}
}
func exist(op, name string) error { return &fs.PathError{Op: op, Path: name, Err: fs.ErrExist} }
func notDir(op, name string) error {
	return &fs.PathError{Op: op, Path: name, Err: syscall.ENOTDIR}
}
func isDirErr(op, name string) error {
	return &fs.PathError{Op: op, Path: name, Err: syscall.EISDIR}
}
func notEmpty(op, name string) error {
	return &fs.PathError{Op: op, Path: name, Err: syscall.ENOTEMPTY}
}

// resolve maps a name given to a root method to the clean model path. ok=false means
// the name is rejected by the root (absolute, or escaping via ..): the trusted os.Root
// contract. Intermediate components must be existing directories (symlinked
// directories inside the tree are outside the model's bound).
func (ri *rootInfo) resolve(op, name string) (string, error) {
	if name == "" {
		return "", notExist(op, name)
	}
	if strings.HasPrefix(name, "/") {
		return "", &fs.PathError{Op: op, Path: name, Err: errPathEscapes{}}
	}
	c := path.Clean(name)
	if c == ".." || strings.HasPrefix(c, "../") {
		return "", &fs.PathError{Op: op, Path: name, Err: errPathEscapes{}}
	}
	full := c
	if ri.dir != "." {
		if c == "." {
			full = ri.dir
		} else {
			full = ri.dir + "/" + c
		}
	}
	// parents must be directories
	if i := strings.LastIndex(full, "/"); i >= 0 {
		parent := full[:i]
		pn := ri.fs.find(parent)
		if pn == nil {
			return "", notExist(op, name)
		}
		if pn.Kind != KDir {
			return "", notDir(op, name)
		}
	}
	return full, nil
}

func (f *FS) hasChildren(full string) bool {
	prefix := full + "/"
	if full == "." {
		prefix = ""
	}
	for _, n := range f.Nodes {
		if !n.Gone && n.Name != "." && n.Name != full && strings.HasPrefix(n.Name, prefix) {
			return true
		}
	}
	return false
}

// --- fs.FileInfo ---

type Info struct {
	N    Node
	base string
	st   syscall.Stat_t
}

func infoOf(n *Node) *Info {
	i := &Info{N: *n, base: path.Base(n.Name)}
	i.st.Uid, i.st.Gid, i.st.Rdev = n.Uid, n.Gid, n.Rdev
	return i
}

func (i *Info) Name() string { return i.base }
func (i *Info) Size() int64  { return int64(len(i.N.Data)) }
func (i *Info) Mode() fs.FileMode {
	m := fs.FileMode(i.N.Perm & 0o777)
	switch i.N.Kind {
	case KDir:
		m |= fs.ModeDir
	case KLink:
		m |= fs.ModeSymlink
	case KFifo:
		m |= fs.ModeNamedPipe
	case KSock:
		m |= fs.ModeSocket
	case KChr:
		m |= fs.ModeDevice | fs.ModeCharDevice
	case KBlk:
		m |= fs.ModeDevice
	}
	return m
}
func (i *Info) ModTime() time.Time { return time.Unix(i.N.Sec, i.N.Nsec) }
func (i *Info) IsDir() bool        { return i.N.Kind == KDir }
func (i *Info) Sys() any           { return &i.st }

// fs.DirEntry
func (i *Info) Type() fs.FileMode          { return i.Mode().Type() }
func (i *Info) Info() (fs.FileInfo, error) { return i, nil }

// --- redirect targets: *os.Root methods ---

func rootOf(r *os.Root) *rootInfo {
	ri := roots[r]
	if ri == nil {
		panic("vfsx: method called on an unknown *os.Root")
	}
	return ri
}

func RootLstat(r *os.Root, name string) (fs.FileInfo, error) {
	ri := rootOf(r)
	full, err := ri.resolve("lstatat", name)
		if err != nil {
		ri.fs.log(Event{Op: "lstat", Path: name, Rejected: true})
	} else {
		ri.fs.log(Event{Op: "lstat", Path: full})
	}
	if err != nil {
		return nil, err
	}
	n := ri.fs.find(full)
	if n == nil {
		return nil, notExist("lstatat", name)
	}
	return infoOf(n), nil
}

// RootStat follows a symlink in the final component (within the root, as os.Root does).
func RootStat(r *os.Root, name string) (fs.FileInfo, error) {
	ri := rootOf(r)
	full, err := ri.resolve("statat", name)
	if err != nil {
		ri.fs.log(Event{Op: "stat", Path: name, Rejected: true})
		return nil, err
	}
	ri.fs.log(Event{Op: "stat", Path: full})
	for hops := 0; hops < 8; hops++ {
		n := ri.fs.find(full)
		if n == nil {
			return nil, notExist("statat", name)
		}
		if n.Kind != KLink {
			return infoOf(n), nil
		}
		if strings.HasPrefix(n.Target, "/") {
			return nil, &fs.PathError{Op: "statat", Path: name, Err: errPathEscapes{}}
		}
		next := path.Join(path.Dir(full), n.Target)
		if next == ".." || strings.HasPrefix(next, "../") {
			return nil, &fs.PathError{Op: "statat", Path: name, Err: errPathEscapes{}}
		}
		if ri.dir != "." && next != ri.dir && !strings.HasPrefix(next, ri.dir+"/") {
			return nil, &fs.PathError{Op: "statat", Path: name, Err: errPathEscapes{}}
		}
		full = next
	}
	return nil, &fs.PathError{Op: "statat", Path: name, Err: fs.ErrInvalid}
}

func newFile(f *FS, n *Node, pending bool) *os.File {
	of := new(os.File)
	fi := &fileInfo{fs: f, node: n, pending: pending, fd: nextFd}
	nextFd++
	files[of] = fi
	fds[fi.fd] = fi
	return of
}

func RootOpen(r *os.Root, name string) (*os.File, error) {
	return RootOpenFile(r, name, os.O_RDONLY, 0)
}

func RootOpenFile(r *os.Root, name string, flag int, perm fs.FileMode) (*os.File, error) {
	ri := rootOf(r)
	full, err := ri.resolve("openat", name)
	mut := flag&(os.O_WRONLY|os.O_RDWR|os.O_CREATE|os.O_TRUNC|os.O_APPEND) != 0
		if err != nil {
		ri.fs.log(Event{Op: "open", Path: name, Rejected: true})
	} else {
		ri.fs.log(Event{Op: "open", Path: full, Mutates: mut, Arg: int64(flag)})
	}
	if err != nil {
		return nil, err
	}
	n := ri.fs.find(full)
	if n == nil {
		if flag&os.O_CREATE == 0 {
			return nil, notExist("openat", name)
		}
		n = &Node{Name: full, Kind: KReg, Perm: uint32(perm.Perm())}
		ri.fs.Nodes = append(ri.fs.Nodes, n)
	}
	if n.Kind == KLink {
		// following symlinks is the trusted part of os.Root; the model treats a
		// symlink as not openable (bound: no symlink traversal in pre-states)
		return nil, notExist("openat", name)
	}
	if flag&os.O_TRUNC != 0 {
		n.Data = nil
	}
	return newFile(ri.fs, n, false), nil
}

func RootRemove(r *os.Root, name string) error {
	ri := rootOf(r)
	full, err := ri.resolve("unlinkat", name)
		if err != nil {
		ri.fs.log(Event{Op: "remove", Path: name, Rejected: true})
	} else {
		ri.fs.log(Event{Op: "remove", Path: full, Mutates: true})
	}
	if err != nil {
		return err
	}
	n := ri.fs.find(full)
	if n == nil {
		return notExist("unlinkat", name)
	}
	if n.Kind == KDir && ri.fs.hasChildren(full) {
		return notEmpty("unlinkat", name)
	}
	if full == "." {
		return &fs.PathError{Op: "unlinkat", Path: name, Err: syscall.EINVAL}
	}
	n.Gone = true
	return nil
}

func RootRemoveAll(r *os.Root, name string) error {
	ri := rootOf(r)
	full, err := ri.resolve("RemoveAll", name)
		if err != nil {
		ri.fs.log(Event{Op: "removeall", Path: name, Rejected: true})
	} else {
		ri.fs.log(Event{Op: "removeall", Path: full, Mutates: true})
	}
	if err != nil {
		return err
	}
	if full == "." || full == ri.dir {
		return &fs.PathError{Op: "RemoveAll", Path: name, Err: syscall.EINVAL}
	}
	prefix := full + "/"
	for _, n := range ri.fs.Nodes {
		if n.Gone {
			continue
		}
		if n.Name == full {
			n.Gone = true
		} else if strings.HasPrefix(n.Name, prefix) {
			n.Gone = true
		}
	}
	return nil
}

func RootMkdir(r *os.Root, name string, perm fs.FileMode) error {
	ri := rootOf(r)
	full, err := ri.resolve("mkdirat", name)
		if err != nil {
		ri.fs.log(Event{Op: "mkdir", Path: name, Rejected: true})
	} else {
		ri.fs.log(Event{Op: "mkdir", Path: full, Mutates: true, Arg: int64(perm)})
	}
	if err != nil {
		return err
	}
	if ri.fs.find(full) != nil {
		return exist("mkdirat", name)
	}
	ri.fs.Nodes = append(ri.fs.Nodes, &Node{Name: full, Kind: KDir, Perm: uint32(perm.Perm())})
	return nil
}

func RootMkdirAll(r *os.Root, name string, perm fs.FileMode) error {
	ri := rootOf(r)
	if name == "" || strings.HasPrefix(name, "/") {
		ri.fs.log(Event{Op: "mkdirall", Path: name, Rejected: true})
		return &fs.PathError{Op: "mkdirat", Path: name, Err: errPathEscapes{}}
	}
	c := path.Clean(name)
	if c == ".." || strings.HasPrefix(c, "../") {
		ri.fs.log(Event{Op: "mkdirall", Path: name, Rejected: true})
		return &fs.PathError{Op: "mkdirat", Path: name, Err: errPathEscapes{}}
	}
	fullc := c
	if ri.dir != "." {
		if c == "." {
			fullc = ri.dir
		} else {
			fullc = ri.dir + "/" + c
		}
	}
	ri.fs.log(Event{Op: "mkdirall", Path: fullc, Mutates: true, Arg: int64(perm)})
	if c == "." {
		return nil
	}
	// create each missing component
	parts := strings.Split(c, "/")
	cur := ri.dir
	for _, p := range parts {
		if cur == "." {
			cur = p
		} else {
			cur = cur + "/" + p
		}
		n := ri.fs.find(cur)
		if n == nil {
			ri.fs.Nodes = append(ri.fs.Nodes, &Node{Name: cur, Kind: KDir, Perm: uint32(perm.Perm())})
			continue
		}
		if n.Kind != KDir {
			return notDir("mkdirat", name)
		}
	}
	return nil
}

func RootChmod(r *os.Root, name string, mode fs.FileMode) error {
	ri := rootOf(r)
	full, err := ri.resolve("chmodat", name)
		if err != nil {
		ri.fs.log(Event{Op: "chmod", Path: name, Rejected: true})
	} else {
		ri.fs.log(Event{Op: "chmod", Path: full, Mutates: true, Arg: int64(mode)})
	}
	if err != nil {
		return err
	}
	n := ri.fs.find(full)
	if n == nil {
		return notExist("chmodat", name)
	}
	n.Perm = uint32(mode.Perm())
	return nil
}

func RootChtimes(r *os.Root, name string, atime, mtime time.Time) error {
	ri := rootOf(r)
	full, err := ri.resolve("chtimesat", name)
		if err != nil {
		ri.fs.log(Event{Op: "chtimes", Path: name, Rejected: true})
	} else {
		ri.fs.log(Event{Op: "chtimes", Path: full, Mutates: true, Arg: mtime.Unix()})
	}
	if err != nil {
		return err
	}
	n := ri.fs.find(full)
	if n == nil {
		return notExist("chtimesat", name)
	}
	n.Sec = mtime.Unix()
	n.Nsec = int64(mtime.Nanosecond())
	return nil
}

func RootLchown(r *os.Root, name string, uid, gid int) error {
	ri := rootOf(r)
	full, err := ri.resolve("fchownat", name)
		if err != nil {
		ri.fs.log(Event{Op: "chown", Path: name, Rejected: true})
	} else {
		ri.fs.log(Event{Op: "chown", Path: full, Mutates: true, Arg: int64(uid)<<32 | int64(uint32(gid))})
	}
	if err != nil {
		return err
	}
	n := ri.fs.find(full)
	if n == nil {
		return notExist("fchownat", name)
	}
	n.Uid, n.Gid = uint32(uid), uint32(gid)
	return nil
}

func RootReadlink(r *os.Root, name string) (string, error) {
	ri := rootOf(r)
	full, err := ri.resolve("readlinkat", name)
		if err != nil {
		ri.fs.log(Event{Op: "readlink", Path: name, Rejected: true})
	} else {
		ri.fs.log(Event{Op: "readlink", Path: full})
	}
	if err != nil {
		return "", err
	}
	n := ri.fs.find(full)
	if n == nil {
		return "", notExist("readlinkat", name)
	}
	if n.Kind != KLink {
		return "", &fs.PathError{Op: "readlinkat", Path: name, Err: syscall.EINVAL}
	}
	return n.Target, nil
}

func RootSymlink(r *os.Root, oldname, newname string) error {
	ri := rootOf(r)
	full, err := ri.resolve("symlinkat", newname)
		if err != nil {
		ri.fs.log(Event{Op: "symlink", Path: newname, Rejected: true})
	} else {
		ri.fs.log(Event{Op: "symlink", Path: full, Path2: oldname, Mutates: true})
	}
	if err != nil {
		return err
	}
	if ri.fs.find(full) != nil {
		return exist("symlinkat", newname)
	}
	ri.fs.Nodes = append(ri.fs.Nodes, &Node{Name: full, Kind: KLink, Perm: 0o777, Target: oldname})
	return nil
}

func RootRename(r *os.Root, oldname, newname string) error {
	ri := rootOf(r)
	fo, err := ri.resolve("renameat", oldname)
	if err != nil {
		ri.fs.log(Event{Op: "rename", Path: oldname, Path2: newname, Rejected: true})
		return err
	}
	fn, err := ri.resolve("renameat", newname)
	if err != nil {
		ri.fs.log(Event{Op: "rename", Path: oldname, Path2: newname, Rejected: true})
		return err
	}
	ri.fs.log(Event{Op: "rename", Path: fo, Path2: fn, Mutates: true})
	src := ri.fs.find(fo)
	if src == nil {
		return notExist("renameat", oldname)
	}
	if dst := ri.fs.find(fn); dst != nil {
		if dst.Kind == KDir && src.Kind != KDir {
			return isDirErr("renameat", newname)
		}
		if dst.Kind == KDir && ri.fs.hasChildren(fn) {
			return notEmpty("renameat", newname)
		}
		dst.Gone = true
	}
	src.Name = fn
	src.Temp = false
	return nil
}

func RootOpenRoot(r *os.Root, name string) (*os.Root, error) {
	ri := rootOf(r)
	full, err := ri.resolve("openat", name)
		if err != nil {
		ri.fs.log(Event{Op: "openroot", Path: name, Rejected: true})
	} else {
		ri.fs.log(Event{Op: "openroot", Path: full})
	}
	if err != nil {
		return nil, err
	}
	n := ri.fs.find(full)
	if n == nil {
		return nil, notExist("openat", name)
	}
	if n.Kind != KDir {
		return nil, notDir("openat", name)
	}
	nr := new(os.Root)
	roots[nr] = &rootInfo{fs: ri.fs, dir: full, abs: ri.abs + "/" + name}
	return nr, nil
}

func RootName(r *os.Root) string { return rootOf(r).abs }
func RootClose(r *os.Root) error { return nil }

// RootFS returns the fs.FS view of a root (used by fs.WalkDir).
func RootFS(r *os.Root) fs.FS { return &rootFS{ri: rootOf(r)} }

type rootFS struct{ ri *rootInfo }

func (rf *rootFS) check(op, name string) error {
	if !fs.ValidPath(name) {
		return &fs.PathError{Op: op, Path: name, Err: fs.ErrInvalid}
	}
	return nil
}

func (rf *rootFS) Open(name string) (fs.File, error) {
	if err := rf.check("open", name); err != nil {
		return nil, err
	}
	full, err := rf.ri.resolve("openat", name)
		if err != nil {
		rf.ri.fs.log(Event{Op: "open", Path: name, Rejected: true})
	} else {
		rf.ri.fs.log(Event{Op: "open", Path: full})
	}
	if err != nil {
		return nil, err
	}
	n := rf.ri.fs.find(full)
	if n == nil {
		return nil, notExist("open", name)
	}
	return &memFile{fs: rf.ri.fs, node: n}, nil
}

func (rf *rootFS) Stat(name string) (fs.FileInfo, error) {
	if err := rf.check("stat", name); err != nil {
		return nil, err
	}
	full, err := rf.ri.resolve("statat", name)
		if err != nil {
		rf.ri.fs.log(Event{Op: "lstat", Path: name, Rejected: true})
	} else {
		rf.ri.fs.log(Event{Op: "lstat", Path: full})
	}
	if err != nil {
		return nil, err
	}
	n := rf.ri.fs.find(full)
	if n == nil {
		return nil, notExist("stat", name)
	}
	return infoOf(n), nil
}

func (rf *rootFS) Lstat(name string) (fs.FileInfo, error) { return rf.Stat(name) }

func (rf *rootFS) ReadLink(name string) (string, error) {
	full, err := rf.ri.resolve("readlinkat", name)
	if err != nil {
		return "", err
	}
	n := rf.ri.fs.find(full)
	if n == nil || n.Kind != KLink {
		return "", notExist("readlink", name)
	}
	return n.Target, nil
}

// ReadDir lists the direct children of name in lexical order.
func (rf *rootFS) ReadDir(name string) ([]fs.DirEntry, error) {
	if err := rf.check("readdir", name); err != nil {
		return nil, err
	}
	full, err := rf.ri.resolve("openat", name)
		if err != nil {
		rf.ri.fs.log(Event{Op: "readdir", Path: name, Rejected: true})
	} else {
		rf.ri.fs.log(Event{Op: "readdir", Path: full})
	}
	if err != nil {
		return nil, err
	}
	d := rf.ri.fs.find(full)
	if d == nil {
		return nil, notExist("open", name)
	}
	if d.Kind != KDir {
		return nil, notDir("readdir", name)
	}
	return rf.ri.fs.children(full), nil
}

func (f *FS) children(full string) []fs.DirEntry {
	prefix := full + "/"
	if full == "." {
		prefix = ""
	}
	var out []fs.DirEntry
	for _, n := range f.Nodes {
		if n.Gone || n.Name == "." || n.Name == full {
			continue
		}
		if !strings.HasPrefix(n.Name, prefix) {
			continue
		}
		rest := n.Name[len(prefix):]
		if strings.Contains(rest, "/") {
			continue
		}
		out = append(out, infoOf(n))
	}
	// insertion sort by name (ReadDir returns sorted entries)
	for i := 1; i < len(out); i++ {
		for j := i; j > 0 && out[j].Name() < out[j-1].Name(); j-- {
			out[j], out[j-1] = out[j-1], out[j]
		}
	}
	return out
}

// memFile implements fs.File + io.Seeker + fs.ReadDirFile for the fs.FS view.
type memFile struct {
	fs   *FS
	node *Node
	off  int64
}

func (m *memFile) Stat() (fs.FileInfo, error) { return infoOf(m.node), nil }
func (m *memFile) Close() error               { return nil }
func (m *memFile) Read(p []byte) (int, error) {
	m.fs.log(Event{Op: "read", Path: m.node.Name})
	if m.off >= int64(len(m.node.Data)) {
		return 0, io.EOF
	}
	n := copy(p, m.node.Data[m.off:])
	m.off += int64(n)
	return n, nil
}
func (m *memFile) Seek(offset int64, whence int) (int64, error) {
	switch whence {
	case io.SeekStart:
		m.off = offset
	case io.SeekCurrent:
		m.off += offset
	case io.SeekEnd:
		m.off = int64(len(m.node.Data)) + offset
	}
	return m.off, nil
}
func (m *memFile) ReadDir(n int) ([]fs.DirEntry, error) { return m.fs.children(m.node.Name), nil }

// --- redirect targets: *os.File methods ---

func fileOf(f *os.File) *fileInfo {
	if f == nil {
		return nil
	}
	return files[f]
}

func FileStat(f *os.File) (fs.FileInfo, error) {
	fi := fileOf(f)
	if fi == nil {
		return nil, fs.ErrInvalid
	}
	return infoOf(fi.node), nil
}

func FileClose(f *os.File) error {
	fi := fileOf(f)
	if fi == nil {
		return fs.ErrInvalid // (*os.File)(nil).Close() returns ErrInvalid
	}
	fi.closed = true
	return nil
}

func FileRead(f *os.File, p []byte) (int, error) {
	fi := fileOf(f)
	if fi == nil {
		return 0, fs.ErrInvalid
	}
	fi.fs.log(Event{Op: "read", Path: fi.node.Name})
	if fi.off >= int64(len(fi.node.Data)) {
		return 0, io.EOF
	}
	n := copy(p, fi.node.Data[fi.off:])
	fi.off += int64(n)
	return n, nil
}

func FileReadAt(f *os.File, p []byte, off int64) (int, error) {
	fi := fileOf(f)
	if fi == nil {
		return 0, fs.ErrInvalid
	}
	fi.fs.log(Event{Op: "read", Path: fi.node.Name})
	if off < 0 {
		return 0, &fs.PathError{Op: "readat", Path: fi.node.Name, Err: fs.ErrInvalid}
	}
	if off >= int64(len(fi.node.Data)) {
		return 0, io.EOF
	}
	n := copy(p, fi.node.Data[off:])
	if n < len(p) {
		return n, io.EOF
	}
	return n, nil
}

func FileSeek(f *os.File, offset int64, whence int) (int64, error) {
	fi := fileOf(f)
	if fi == nil {
		return 0, fs.ErrInvalid
	}
	switch whence {
	case io.SeekStart:
		fi.off = offset
	case io.SeekCurrent:
		fi.off += offset
	case io.SeekEnd:
		fi.off = int64(len(fi.node.Data)) + offset
	}
	return fi.off, nil
}

func FileWrite(f *os.File, p []byte) (int, error) {
	fi := fileOf(f)
	if fi == nil {
		return 0, fs.ErrInvalid
	}
	fi.fs.log(Event{Op: "write", Path: fi.node.Name, Mutates: !fi.node.Temp, Arg: int64(len(p))})
	fi.node.Data = append(fi.node.Data, p...)
	return len(p), nil
}

func FileName(f *os.File) string {
	fi := fileOf(f)
	if fi == nil {
		return ""
	}
	return fi.node.Name
}

func FileFd(f *os.File) uintptr {
	fi := fileOf(f)
	if fi == nil {
		return ^uintptr(0)
	}
	return uintptr(fi.fd)
}

func FileSync(f *os.File) error { return nil }
func FileChmod(f *os.File, mode fs.FileMode) error {
	fi := fileOf(f)
	if fi == nil {
		return fs.ErrInvalid
	}
	fi.fs.log(Event{Op: "chmod", Path: fi.node.Name, Mutates: !fi.node.Temp, Arg: int64(mode)})
	fi.node.Perm = uint32(mode.Perm())
	return nil
}

// --- renameio ---

func WithRoot(r *os.Root) renameio.Option {
	pendingRoot = r
	return nil
}

// further renameio options: recorded for the next NewPendingFile
var pendingReplaceOnClose bool

func WithReplaceOnClose() renameio.Option              { pendingReplaceOnClose = true; return nil }
func WithPermissions(perm fs.FileMode) renameio.Option { return nil }
func WithExistingPermissions() renameio.Option         { return nil }
func WithTempDir(dir string) renameio.Option {
	// a temporary directory outside the root handle is an ambient path
	ambient("renameio.WithTempDir", dir, true)
	return nil
}

// NewPendingFile models renameio.NewPendingFile(path, WithRoot(root)): a separately
// named temporary file (name not in any file list) in the same root.
func NewPendingFile(p string, opts ...renameio.Option) (*renameio.PendingFile, error) {
	r := pendingRoot
	pendingRoot = nil
	if r == nil {
		// no root option: ambient temp file next to path
		Cur.log(Event{Op: "ambient-create", Path: p, Ambient: true, Mutates: true})
		return nil, fs.ErrInvalid
	}
	ri := rootOf(r)
	full, err := ri.resolve("openat", p)
		if err != nil {
		ri.fs.log(Event{Op: "create", Path: p, Rejected: true})
	} else {
		ri.fs.log(Event{Op: "create", Path: full})
	}
	if err != nil {
		return nil, err
	}
	// the temporary file lives inside the root, next to the destination name
	tdir := ri.dir
	if i := strings.LastIndex(full, "/"); i >= 0 && full != ri.dir {
		tdir = full[:i]
	}
	tmp := &Node{Name: tdir + "/\x00tmp-" + path.Base(full), Kind: KReg, Perm: 0o600, Temp: true}
	ri.fs.Nodes = append(ri.fs.Nodes, tmp)
	of := newFile(ri.fs, tmp, true)
	pf := &renameio.PendingFile{File: of}
	pendings[pf] = &pendInfo{fs: ri.fs, root: ri, dest: full, tmp: tmp, file: of, replaceOnClose: pendingReplaceOnClose}
	pendingReplaceOnClose = false
	return pf, nil
}

func PendingCleanup(pf *renameio.PendingFile) error {
	pi := pendings[pf]
	if pi == nil {
		return fs.ErrInvalid
	}
	if pi.done {
		return nil
	}
	pi.fs.log(Event{Op: "cleanup", Path: pi.dest})
	pi.tmp.Gone = true
	pi.done = true
	return nil
}

// PendingClose models (*renameio.PendingFile).Close: with WithReplaceOnClose it is the
// atomic replace, otherwise it only closes the temporary file.
func PendingClose(pf *renameio.PendingFile) error {
	pi := pendings[pf]
	if pi == nil {
		return fs.ErrInvalid
	}
	if pi.replaceOnClose && !pi.done {
		return PendingCloseAtomicallyReplace(pf)
	}
	return nil
}

func PendingCloseAtomicallyReplace(pf *renameio.PendingFile) error {
	pi := pendings[pf]
	if pi == nil {
		return fs.ErrInvalid
	}
	pi.fs.log(Event{Op: "rename", Path: pi.tmp.Name, Path2: pi.dest, Mutates: true})
	if dst := pi.fs.find(pi.dest); dst != nil {
		if dst.Kind == KDir {
			return isDirErr("renameat", pi.dest)
		}
		dst.Gone = true
	}
	pi.tmp.Name = pi.dest
	pi.tmp.Temp = false
	pi.done = true
	return nil
}

// SymlinkRoot models renameio.SymlinkRoot: atomic creation or replacement of newname.
func SymlinkRoot(r *os.Root, oldname, newname string) error {
	ri := rootOf(r)
	full, err := ri.resolve("symlinkat", newname)
		if err != nil {
		ri.fs.log(Event{Op: "symlink-replace", Path: newname, Rejected: true})
	} else {
		ri.fs.log(Event{Op: "symlink-replace", Path: full, Path2: oldname, Mutates: true})
	}
	if err != nil {
		return err
	}
	if dst := ri.fs.find(full); dst != nil {
		if dst.Kind == KDir {
			return isDirErr("renameat", newname)
		}
		dst.Gone = true
	}
	ri.fs.Nodes = append(ri.fs.Nodes, &Node{Name: full, Kind: KLink, Perm: 0o777, Target: oldname})
	return nil
}

// --- descriptor-relative unix calls ---

func mkAt(op string, dirfd int, p string, kind Kind, perm uint32, dev int) error {
	fi := fds[dirfd]
	if fi == nil {
		Cur.log(Event{Op: op, Path: p, Ambient: true, Mutates: true})
		return syscall.EBADF
	}
	if p == "." || p == ".." || p == "/" {
		// these always exist ("/" is what filepath.Base returns for the root): the kernel
		// answers EEXIST / EADDRINUSE and creates nothing
		fi.fs.log(Event{Op: op, Path: p, Rejected: true})
		return syscall.EEXIST
	}
	bad := strings.Contains(p, "/") || p == ""
	fi.fs.log(Event{Op: op, Path: fi.node.Name + "/" + p, Mutates: true, Ambient: bad, Arg: int64(dev)})
	if bad {
		return syscall.EINVAL
	}
	full := p
	if fi.node.Name != "." {
		full = fi.node.Name + "/" + p
	}
	if fi.fs.find(full) != nil {
		return syscall.EEXIST
	}
	fi.fs.Nodes = append(fi.fs.Nodes, &Node{Name: full, Kind: kind, Perm: perm & 0o777, Rdev: uint64(dev)})
	return nil
}

func Mknodat(dirfd int, p string, mode uint32, dev int) error {
	kind := KChr
	if mode&syscall.S_IFMT == syscall.S_IFBLK {
		kind = KBlk
	}
	return mkAt("mknod", dirfd, p, kind, mode, dev)
}

func Mkfifoat(dirfd int, p string, mode uint32) error {
	return mkAt("mkfifo", dirfd, p, KFifo, mode, 0)
}

// --- ambient (not root-relative) calls ---

func ambient(op, p string, mut bool) {
	if Cur != nil {
		Cur.log(Event{Op: op, Path: p, Ambient: true, Mutates: mut})
	}
}

// AmbientRoots maps a configured destination path string to a model directory.
var AmbientRoots = map[string]string{}

func OsMkdirAll(p string, perm fs.FileMode) error {
	ambient("os.MkdirAll", p, true)
	return nil
}

func OsOpenRoot(p string) (*os.Root, error) {
	ambient("os.OpenRoot", p, false)
	dir, ok := AmbientRoots[p]
	if !ok {
		return nil, notExist("open", p)
	}
	r := new(os.Root)
	roots[r] = &rootInfo{fs: Cur, dir: dir, abs: p}
	return r, nil
}

func OsRemove(p string) error                       { ambient("os.Remove", p, true); return nil }
func OsRemoveAll(p string) error                    { ambient("os.RemoveAll", p, true); return nil }
func OsChmod(p string, m fs.FileMode) error         { ambient("os.Chmod", p, true); return nil }
func OsChtimes(p string, a, m time.Time) error      { ambient("os.Chtimes", p, true); return nil }
func OsLchown(p string, u, g int) error             { ambient("os.Lchown", p, true); return nil }
func OsSymlink(o, n string) error                   { ambient("os.Symlink", n, true); return nil }
func OsRename(o, n string) error                    { ambient("os.Rename", n, true); return nil }
func OsMkdir(p string, m fs.FileMode) error         { ambient("os.Mkdir", p, true); return nil }
func OsOpen(p string) (*os.File, error)             { ambient("os.Open", p, false); return nil, notExist("open", p) }
func OsLstat(p string) (fs.FileInfo, error)         { ambient("os.Lstat", p, false); return nil, notExist("lstat", p) }
func OsStat(p string) (fs.FileInfo, error)          { ambient("os.Stat", p, false); return nil, notExist("stat", p) }
func OsReadlink(p string) (string, error)           { ambient("os.Readlink", p, false); return "", notExist("readlink", p) }
func OsReadFile(p string) ([]byte, error)           { ambient("os.ReadFile", p, false); return nil, notExist("open", p) }
func OsCreate(p string) (*os.File, error)           { ambient("os.Create", p, true); return nil, notExist("open", p) }
func OsWriteFile(p string, d []byte, m fs.FileMode) error { ambient("os.WriteFile", p, true); return nil }
func OsOpenFile(p string, flag int, m fs.FileMode) (*os.File, error) {
	ambient("os.OpenFile", p, flag != 0)
	return nil, notExist("open", p)
}

// Redirects is the table the driver installs (callee -> replacement).
var _ = 0

// --- sockets (createDevice's S_IFSOCK branch) ---

var sockFds = map[int]bool{}

func Socket(domain, typ, proto int) (int, error) {
	fd := nextFd
	nextFd++
	sockFds[fd] = true
	return fd, nil
}

func Bind(fd int, sa unix.Sockaddr) error {
	su, ok := sa.(*unix.SockaddrUnix)
	if !ok {
		return syscall.EINVAL
	}
	name := su.Name
	const pfx = "/proc/self/fd/"
	if name == "/proc/self/fd" {
		// base "..": filepath.Join collapsed it lexically; the directory exists, nothing is created
		if Cur != nil {
			Cur.log(Event{Op: "bind", Path: name, Rejected: true})
		}
		return syscall.EADDRINUSE
	}
	if !strings.HasPrefix(name, pfx) {
		ambient("bind", name, true)
		return syscall.EINVAL
	}
	rest := name[len(pfx):]
	i := strings.Index(rest, "/")
	if i < 0 {
		// "/proc/self/fd/N" itself (base "." or "/"): exists, nothing is created
		if Cur != nil {
			Cur.log(Event{Op: "bind", Path: name, Rejected: true})
		}
		return syscall.EADDRINUSE
	}
	dirfd := 0
	for _, c := range rest[:i] {
		dirfd = dirfd*10 + int(c-'0')
	}
	return mkAt("bind", dirfd, rest[i+1:], KSock, 0o755, 0)
}

func UnixClose(fd int) error { return nil }

// AsFS returns an fs.FS view of the model directory dir for use as a sender source
// (symbolic: the model; native: the real directory through os.Root).
func (f *FS) AsFS(dir string) fs.FS {
	if f.real != "" {
		r, err := os.OpenRoot(f.real + "/" + dir)
		if err != nil {
			panic(err)
		}
		return r.FS()
	}
	return &rootFS{ri: &rootInfo{fs: f, dir: dir, abs: "/model/" + dir}}
}
