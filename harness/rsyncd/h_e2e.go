package rsyncd

import (
	"time"

	"github.com/gokrazy/rsync/internal/receiver"
	"github.com/gokrazy/rsync/internal/sender"
	"github.com/gokrazy/rsync/internal/vfsx"
	"github.com/mmcloughlin/md4"
)

func eq(a, b []byte) bool {
	if len(a) != len(b) {
		return false
	}
	var d byte
	for i := range a {
		d |= a[i] ^ b[i]
	}
	return d == 0
}

// HEndToEnd (C01): one regular file through the three real stages in sequence -
// generator (update decision, block checksums of the prior destination content) ->
// sender (delta against those checksums) -> receiver (reconstruction, whole-file check,
// atomic replace). Source content, prior destination state (absent or a file with
// arbitrary content, size and mtime), seed and the options -c -I -t -p are symbolic.
// Every stage must succeed; afterwards the destination holds exactly the source bytes,
// unless the generator skipped the file (then the sizes are equal, as the update rule
// requires).
func HEndToEnd() {
	n, m := vparam("n"), vparam("m")
	fsys := vfsx.New()
	defer fsys.Cleanup()
	src := nd_bytes(n)
	var prior []byte
	dsec := int64(nd_i32())
	if m >= 0 {
		prior = nd_bytes(m)
		fsys.Add(&vfsx.Node{Name: "f", Kind: vfsx.KReg, Perm: 0o644, Data: prior, Sec: dsec})
	}
	seed := nd_i32()
	opts := &receiver.TransferOpts{AlwaysChecksum: nd_bool(), IgnoreTimes: nd_bool(), PreserveTimes: nd_bool(), PreservePerms: nd_bool()}
	rt, genOut := receiver.VerifNewTransfer(fsys, seed, opts)
	ssec := int64(nd_i32())
	f := &receiver.File{Name: "f", Length: int64(n), ModTime: time.Unix(ssec, 0), Mode: 0o100644}
	if opts.AlwaysChecksum {
		h := md4.New()
		h.Write(src)
		copy(f.Checksum[:], h.Sum(nil))
	}
	fl := []*receiver.File{f}
	err := receiver.VerifGenerate(rt, fl)
	vassert(err == nil, "generator failed")
	if err != nil {
		return
	}
	requests := genOut()
	// requests = [index, sum head, sums]* -1 -1
	vassert(len(requests) >= 8, "generator output too short")
	if len(requests) == 8 {
		// skipped: allowed only when the update rule says up to date
		vassert(m == n, "file skipped although the sizes differ")
		vreach("skipped")
		return
	}
	stream, err := sender.VerifSendOneFile(requests, src, seed, false)
	vassert(err == nil, "sender failed on the generator's request")
	if err != nil {
		return
	}
	all, err := receiver.VerifReceive(rt, fl, stream)
	vassert(err == nil, "receiver failed on the sender's stream")
	if err != nil {
		return
	}
	vassert(all, "receiver did not consume the whole stream")
	got := fsys.Get("f")
	vassert(got.Kind == vfsx.KReg, "destination is not a regular file")
	vassert(eq(got.Data, src), "destination differs from the source after a successful sync")
	if opts.PreserveTimes {
		vassert(got.Sec == ssec, "-t: mtime")
	}
	vreach("transferred")
}

func init() { verifHarnesses["HEndToEnd"] = HEndToEnd }

// HEndToEndBig (C01): the same three-stage composition at the real block size: a prior
// destination file of m bytes (m around multiples of 700, fixed pattern) and a source that
// equals it except for one symbolic byte at position pos and an optional symbolic tail of
// t bytes. Covers block-aligned files, the remainder block and matches of the last block.
func HEndToEndBig() {
	m, pos, t := vparam("m"), vparam("pos"), vparam("t")
	fsys := vfsx.New()
	defer fsys.Cleanup()
	prior := make([]byte, m)
	for i := range prior {
		prior[i] = byte(i*31 + i>>8 + 7)
	}
	src := make([]byte, m, m+t)
	copy(src, prior)
	if vparam("swap") == 1 && m >= 1400 {
		// same size, same blocks, other arrangement: first two blocks exchanged
		copy(src[0:700], prior[700:1400])
		copy(src[700:1400], prior[0:700])
	}
	if pos >= 0 {
		src[pos] = nd_u8()
	}
	src = append(src, nd_bytes(t)...)
	fsys.Add(&vfsx.Node{Name: "f", Kind: vfsx.KReg, Perm: 0o644, Data: prior, Sec: 5})
	seed := nd_i32()
	opts := &receiver.TransferOpts{IgnoreTimes: true, PreservePerms: true}
	rt, genOut := receiver.VerifNewTransfer(fsys, seed, opts)
	f := &receiver.File{Name: "f", Length: int64(len(src)), ModTime: time.Unix(9, 0), Mode: 0o100644}
	fl := []*receiver.File{f}
	err := receiver.VerifGenerate(rt, fl)
	vassert(err == nil, "generator failed")
	if err != nil {
		return
	}
	requests := genOut()
	vassert(len(requests) > 8, "file was not requested")
	stream, err := sender.VerifSendOneFile(requests, src, seed, false)
	vassert(err == nil, "sender failed on the generator's request")
	if err != nil {
		return
	}
	all, err := receiver.VerifReceive(rt, fl, stream)
	vassert(err == nil, "receiver failed on the sender's stream")
	if err != nil {
		return
	}
	vassert(all, "receiver did not consume the whole stream")
	got := fsys.Get("f")
	vassert(eq(got.Data, src), "destination differs from the source after a successful sync")
	if len(stream) < len(src) {
		vreach("delta-saved")
	}
	vreach("transferred")
}

func init() { verifHarnesses["HEndToEndBig"] = HEndToEndBig }
