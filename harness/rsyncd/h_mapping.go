package rsyncd

import (
	"context"
	"errors"
	"io"

	"github.com/gokrazy/rsync/internal/receiver"
	"github.com/gokrazy/rsync/internal/rsyncopts"
	"github.com/gokrazy/rsync/internal/vfsx"
)

var capturedOpts *receiver.TransferOpts

// VCaptureFileList stands in for (*receiver.Transfer).ReceiveFileList in the mapping
// harness: it records the TransferOpts the server built and ends the session.
func VCaptureFileList(rt *receiver.Transfer) ([]*receiver.File, error) {
	c := *rt.Opts
	capturedOpts = &c
	return nil, errors.New("captured")
}

// HServerMapping (C14): the receiving server's view of the options. For every subset of
// the transfer options the client forwards (ServerOptions), the TransferOpts the daemon
// hands to its receiver must carry the same truth value for every option the receiver
// acts on.
func HServerMapping() {
	fsys := vfsx.New()
	defer fsys.Cleanup()
	fsys.Add(&vfsx.Node{Name: "mod", Kind: vfsx.KDir, Perm: 0o755})
	vfsx.AmbientRoots["/m/mod"] = "mod"
	fl := rsyncopts.VerifFlags{Sender: true, Recurse: true, XferDirs: 1,
		DryRun: nd_bool(), Links: nd_bool(), Perms: nd_bool(), Times: nd_bool(), Uid: nd_bool(), Gid: nd_bool(),
		Devices: nd_bool(), Specials: nd_bool(), Checksum: nd_bool(), IgnoreTimes: nd_bool(), Delete: nd_bool()}
	args := append(rsyncopts.VerifOptions(fl).ServerOptions(), ".", "/")
	mod := Module{Name: "mod", Path: "/m/mod", Writable: true}
	srv, err := NewServer([]Module{mod}, DontRestrict(), WithStderr(io.Discard))
	vassert(err == nil, "NewServer")
	if err != nil {
		return
	}
	var in []byte
	in = putI32(in, 27)
	in = putI32(in, 0) // empty filter list (read when --delete)
	conn := newVconn(in)
	capturedOpts = nil
	srv.HandleConnArgs(context.Background(), NewConnection(conn, conn, "peer"), &mod, args)
	vassert(capturedOpts != nil, "the receiving server never got as far as the file list")
	if capturedOpts == nil {
		return
	}
	o := capturedOpts
	vassert(o.DryRun == fl.DryRun, "-n lost between the options and the receiver")
	vassert(o.DeleteMode == fl.Delete, "--delete lost between the options and the receiver")
	vassert(o.PreserveLinks == fl.Links, "-l lost between the options and the receiver")
	vassert(o.PreservePerms == fl.Perms, "-p lost between the options and the receiver")
	vassert(o.PreserveTimes == fl.Times, "-t lost between the options and the receiver")
	vassert(o.PreserveUid == fl.Uid, "-o lost between the options and the receiver")
	vassert(o.PreserveGid == fl.Gid, "-g lost between the options and the receiver")
	vassert(o.PreserveDevices == fl.Devices, "--devices lost between the options and the receiver")
	vassert(o.PreserveSpecials == fl.Specials, "--specials lost between the options and the receiver")
	vassert(o.AlwaysChecksum == fl.Checksum, "-c lost between the options and the receiver")
	vassert(o.IgnoreTimes == fl.IgnoreTimes, "-I lost between the options and the receiver")
	vassert(o.Server, "server flag")
	vreach("mapped")
}

func init() { verifHarnesses["HServerMapping"] = HServerMapping }
