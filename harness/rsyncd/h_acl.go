package rsyncd

import (
	"context"
	"fmt"
	"io"
	"net"
	"strings"
)

// --- symbolic stand-ins for the text parsers of package net (symbolic mode only) ---

type aclNet struct {
	v6     bool
	addr   []byte // 4 or 16 bytes, not necessarily masked
	prefix int
	bad    bool // malformed network text
}

var (
	aclClient   net.IP // what net.ParseIP returns for the client host
	aclHostText string // the only host text VParseIP recognises
	aclNets     map[string]*aclNet
)

// VSplitHostPort / VParseIP / VParseCIDR replace the net functions under symbolic execution.
// Contract: ParseIP returns the 16-byte form (IPv4 as ::ffff:a.b.c.d); ParseCIDR returns the
// network with its address masked to the prefix and a mask of the address family's length.
// VSplitHostPort follows net.SplitHostPort for the two shapes a TCP peer address has:
// "host:port" and "[ipv6]:port".
func VSplitHostPort(hostport string) (string, string, error) {
	i := strings.LastIndex(hostport, ":")
	if i < 0 {
		return "", "", &net.AddrError{Err: "missing port in address", Addr: hostport}
	}
	host, port := hostport[:i], hostport[i+1:]
	if strings.HasPrefix(host, "[") {
		if !strings.HasSuffix(host, "]") {
			return "", "", &net.AddrError{Err: "missing ']' in address", Addr: hostport}
		}
		host = host[1 : len(host)-1]
	} else if strings.Contains(host, ":") {
		return "", "", &net.AddrError{Err: "too many colons in address", Addr: hostport}
	}
	return host, port, nil
}

// VParseIP maps exactly the expected host text to the symbolic client address.
func VParseIP(s string) net.IP {
	if s != aclHostText {
		return nil
	}
	return aclClient
}

func VParseCIDR(s string) (net.IP, *net.IPNet, error) {
	n := aclNets[s]
	if n == nil || n.bad {
		return nil, nil, &net.ParseError{Type: "CIDR address", Text: s}
	}
	bits := 32
	if n.v6 {
		bits = 128
	}
	mask := net.CIDRMask(n.prefix, bits)
	ip := make(net.IP, len(n.addr))
	for i := range ip {
		ip[i] = n.addr[i] & mask[i]
	}
	return net.IP(n.addr), &net.IPNet{IP: ip, Mask: mask}, nil
}

// refContains: bitwise containment on the family-normalised address (a v4-mapped
// address is a v4 address; different families never match).
func refContains(n *aclNet, client []byte, clientIs4 bool) bool {
	if n.v6 == clientIs4 {
		return false
	}
	var diff byte
	for i := 0; i < len(n.addr); i++ {
		sh := min(max(n.prefix-8*i, 0), 8)
		m := byte(uint32(0xff00) >> uint(sh))
		diff |= (n.addr[i] ^ client[i]) & m
	}
	return diff == 0
}

// sym6 is an IPv6 address 2001:db8:X::/48-ish with three symbolic bytes (one in the
// routing prefix, two at the end); the other bytes are fixed, which keeps the byte-wise
// loops of package net from forking on every position.
func sym6() []byte {
	a := []byte{0x20, 0x01, 0x0d, 0xb8, 0, 0, 0, 0, 0, 0, 0, 0, 0, 0, 0, 0}
	a[5] = nd_u8()
	a[14] = nd_u8()
	a[15] = nd_u8()
	return a
}

var v6Prefixes = []int{0, 32, 48, 112, 120, 127, 128}

// HACL (C19): k rules, each (allow | deny | unknown action | no space) x (all | network | malformed
// network text); networks and the client address are symbolic (IPv4, IPv6, IPv4-mapped IPv6).
// checkACL must grant exactly when the first rule whose network contains the address says
// allow, or when no rule matches; reaching a malformed rule is an error.
func HACL() {
	k := vparam("k")
	// client
	fam := nd_range(0, 2) // 0: IPv4, 1: IPv6, 2: IPv4-mapped IPv6 text
	var client []byte
	clientIs4 := fam != 1
	if clientIs4 {
		client = nd_bytes(4)
	} else {
		client = sym6()
	}
	var acls []string
	type rule struct {
		action int // 0 allow, 1 deny, 2 unknown word, 3 no space
		who    int // 0 all, 1 network, 2 malformed
		n      *aclNet
	}
	var rules []rule
	aclNets = map[string]*aclNet{}
	for i := 0; i < k; i++ {
		r := rule{action: nd_range(0, 3), who: nd_range(0, 2)}
		tok := fmt.Sprintf("N%d", i)
		if r.who == 1 {
			n := &aclNet{v6: nd_bool()}
			if n.v6 {
				n.addr = sym6()
				n.prefix = v6Prefixes[nd_range(0, len(v6Prefixes)-1)]
			} else {
				n.addr = nd_bytes(4)
				n.prefix = int(nd_u8())
				vassume(n.prefix <= 32)
			}
			r.n = n
			aclNets[tok] = n
			if !vsymbolic() {
				tok = fmt.Sprintf("%s/%d", net.IP(n.addr).String(), n.prefix)
			}
		}
		if r.who == 2 {
			aclNets[tok] = &aclNet{bad: true}
			if !vsymbolic() {
				tok = "300.1.2.3/8"
			}
		}
		if r.who == 0 {
			tok = "all"
		}
		var s string
		switch r.action {
		case 0:
			s = "allow " + tok
		case 1:
			s = "deny " + tok
		case 2:
			s = "permit " + tok
		case 3:
			s = "allow" + tok
			if r.who == 1 || r.who == 2 {
				s = "allow" // no space at all
			}
		}
		acls = append(acls, s)
		rules = append(rules, r)
	}
	remote := "192.0.2.1:1234"
	aclHostText = "192.0.2.1"
	if vsymbolic() {
		if clientIs4 {
			aclClient = net.IPv4(client[0], client[1], client[2], client[3])
			if fam == 2 {
				remote, aclHostText = "[::ffff:192.0.2.1]:1234", "::ffff:192.0.2.1"
			}
		} else {
			aclClient = net.IP(client)
			remote, aclHostText = "[2001:db8::1]:1234", "2001:db8::1"
		}
	} else {
		switch fam {
		case 0:
			remote = net.JoinHostPort(net.IP(client).String(), "1234")
		case 1:
			remote = net.JoinHostPort(net.IP(client).String(), "1234")
		case 2:
			remote = net.JoinHostPort("::ffff:"+net.IP(client).String(), "1234")
		}
	}
	err := checkACL(acls, remote)

	// reference: first-match allow/deny, default allow, malformed rule reached => error
	want := true
	for _, r := range rules {
		if r.action == 3 {
			want = false // no space: malformed
			break
		}
		if r.action == 2 {
			want = false // unknown action word
			break
		}
		match := false
		switch r.who {
		case 0:
			match = true
		case 1:
			match = refContains(r.n, client, clientIs4)
		case 2:
			want = false // malformed network text
		}
		if r.who == 2 {
			break
		}
		if match {
			want = r.action == 0
			break
		}
	}
	if want {
		vassert(err == nil, "access denied although the first matching rule allows (or no rule matches)")
		vreach("granted")
	} else {
		vassert(err != nil, "access granted although the first matching rule denies or a malformed rule was reached")
		vreach("refused")
	}
}

var verifHarnesses = map[string]func(){
	"HACL": HACL,
}

// HACLDaemon (C19, daemon level): a module whose ACL refuses the client must answer with
// an @ERROR line and nothing else: no "@RSYNCD: OK", the argument lines are not read, no
// sender or receiver is started (no file-system event). One rule (allow/deny, symbolic
// IPv4 network) decides for a symbolic IPv4 client.
func HACLDaemon() {
	fsys := vfsxNew()
	defer fsys.Cleanup()
	n := &aclNet{addr: nd_bytes(4), prefix: int(nd_u8())}
	vassume(n.prefix <= 32)
	client := nd_bytes(4)
	deny := nd_bool()
	aclNets = map[string]*aclNet{"N0": n}
	tok := "N0"
	remote := "192.0.2.1:1234"
	aclHostText = "192.0.2.1"
	if vsymbolic() {
		aclClient = net.IPv4(client[0], client[1], client[2], client[3])
	} else {
		tok = fmt.Sprintf("%s/%d", net.IP(n.addr).String(), n.prefix)
		remote = net.JoinHostPort(net.IP(client).String(), "1234")
	}
	rule := "allow " + tok
	if deny {
		rule = "deny " + tok
	}
	base := "/srv"
	if p := fsys.RealPath(); p != "" {
		base = p
	}
	fsysAddDir(fsys, "m")
	vfsxAmbient(base+"/m", "m")
	srv, err := NewServer([]Module{{Name: "m", Path: base + "/m", ACL: []string{rule}}}, DontRestrict(), WithStderr(io.Discard))
	vassert(err == nil, "NewServer")
	if err != nil {
		return
	}
	head := "@RSYNCD: 27\nm\n"
	in := []byte(head + "--server\n--sender\n-r\n.\nm/\n\n")
	in = putI32(in, 0)
	in = putI32(in, -1)
	in = putI32(in, -1)
	in = putI32(in, -1)
	conn := newVconn(in)
	before := len(fsys.Events)
	err = srv.HandleDaemonConn(context.Background(), NewConnection(conn, conn, remote))
	refused := deny && refContains(n, client, true)
	out := string(conn.out)
	if refused {
		vassert(err != nil, "a refused client was served")
		vassert(strings.Contains(out, "@ERROR"), "no @ERROR line for a refused client")
		vassert(!strings.Contains(out, "@RSYNCD: OK"), "OK sent to a refused client")
		vassert(len(out) < 80, "more than the greeting and the error line was sent to a refused client")
		if vsymbolic() {
			vassert(len(fsys.Events) == before, "file-system activity for a refused client")
		}
		vreach("daemon-refused")
	} else {
		vassert(strings.Contains(out, "@RSYNCD: OK"), "an admitted client did not get OK")
		vreach("daemon-admitted")
	}
}

func init() { verifHarnesses["HACLDaemon"] = HACLDaemon }
