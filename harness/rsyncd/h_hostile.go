package rsyncd

import (
	"context"
	"io"

	"github.com/gokrazy/rsync/internal/vfsx"
)

// HHostileDaemon (C08): the daemon's text protocol on hostile input: arbitrary greeting
// bytes, an arbitrary module line, or - for an existing read-only module - an arbitrary
// argument line followed by arbitrary bytes where the filter list is expected.
func HHostileDaemon() {
	mode, n := vparam("mode"), vparam("n")
	fsys := vfsx.New()
	defer fsys.Cleanup()
	fsys.Add(&vfsx.Node{Name: "m", Kind: vfsx.KDir, Perm: 0o755})
	base := "/srv"
	if p := fsys.RealPath(); p != "" {
		base = p
	}
	vfsx.AmbientRoots[base+"/m"] = "m"
	srv, err := NewServer([]Module{{Name: "m", Path: base + "/m"}}, DontRestrict(), WithStderr(io.Discard))
	vassert(err == nil, "NewServer")
	if err != nil {
		return
	}
	var in []byte
	switch mode {
	case 0: // arbitrary bytes from the start
		in = nd_bytes(n)
	case 1: // valid greeting, arbitrary module line
		in = append(in, "@RSYNCD: 27\n"...)
		in = append(in, nd_bytes(n)...)
		in = append(in, '\n')
	case 2: // valid greeting and module, one arbitrary argument line, then arbitrary bytes
		in = append(in, "@RSYNCD: 27\nm\n--server\n--sender\n"...)
		in = append(in, nd_bytes(n)...)
		in = append(in, "\n.\nm/\n\n"...)
		in = append(in, nd_bytes(5)...)
	}
	conn := newVconn(in)
	err = srv.HandleDaemonConn(context.Background(), NewConnection(conn, conn, "192.0.2.9:1"))
	if err != nil {
		vreach("error")
	} else {
		vreach("ok")
	}
}

func init() { verifHarnesses["HHostileDaemon"] = HHostileDaemon }
