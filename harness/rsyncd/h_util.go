package rsyncd

import "github.com/gokrazy/rsync/internal/vfsx"

func vfsxNew() *vfsx.FS { return vfsx.New() }

func fsysAddDir(f *vfsx.FS, name string) {
	f.Add(&vfsx.Node{Name: name, Kind: vfsx.KDir, Perm: 0o755})
}

func vfsxAmbient(path, dir string) { vfsx.AmbientRoots[path] = dir }
