package rsyncd

import (
	"context"
	"io"
	"strings"

	"github.com/gokrazy/rsync/internal/vfsx"
)

// HDisclose (C06): a client asks a serving daemon for an arbitrary path below a module
// (module name followed by up to n arbitrary bytes: "/..", "/../mm", "//", "/.", ...), with
// -r and optionally -l / -c. Several modules exist whose names are prefixes of one another.
// Every object the sender looks at (stat, open, read, readdir, readlink) must lie inside
// the requested module's directory; the only ambient call is OpenRoot on that module's
// configured path.
func HDisclose() {
	n := vparam("n")
	fsys := vfsx.New()
	defer fsys.Cleanup()
	fsys.Add(&vfsx.Node{Name: "m", Kind: vfsx.KDir, Perm: 0o755})
	fsys.Add(&vfsx.Node{Name: "m/a", Kind: vfsx.KReg, Perm: 0o644, Data: []byte{1}})
	fsys.Add(&vfsx.Node{Name: "m/l", Kind: vfsx.KLink, Perm: 0o777, Target: "../secret"})
	fsys.Add(&vfsx.Node{Name: "mm", Kind: vfsx.KDir, Perm: 0o755})
	fsys.Add(&vfsx.Node{Name: "mm/b", Kind: vfsx.KReg, Perm: 0o644, Data: []byte{2}})
	fsys.Add(&vfsx.Node{Name: "secret", Kind: vfsx.KReg, Perm: 0o600, Data: []byte{9}})
	base := "/srv"
	if p := fsys.RealPath(); p != "" {
		base = p
	}
	vfsx.AmbientRoots[base+"/m"] = "m"
	vfsx.AmbientRoots[base+"/mm"] = "mm"
	mods := []Module{{Name: "m", Path: base + "/m"}, {Name: "mm", Path: base + "/mm"}}
	srv, err := NewServer(mods, DontRestrict(), WithStderr(io.Discard))
	vassert(err == nil, "NewServer")
	if err != nil {
		return
	}
	which := nd_range(0, 1)
	mod := mods[which]
	tail := nd_string(n)
	if vparam("abs") == 1 {
		// the request spells out the module's own absolute directory (or a path that starts
		// with it) after the module name: "m/srv/m/..", "m/srv/mm/" ...
		tail = mod.Path + tail
	}
	for i := 0; i < len(tail); i++ {
		vassume(tail[i] != '\n')
		vassume(tail[i] != 0)
		vassume(tail[i] > ' ') // no white space (the line protocol trims it)
	}
	var in []byte
	in = append(in, "@RSYNCD: 27\n"...)
	in = append(in, mod.Name+"\n"...)
	in = append(in, "--server\n--sender\n"...)
	flags := "-r"
	if nd_bool() {
		flags += "l"
	}
	if nd_bool() {
		flags += "c"
	}
	in = append(in, flags+"\n.\n"...)
	in = append(in, mod.Name+tail+"\n\n"...)
	in = putI32(in, 0) // empty filter list
	in = putI32(in, -1)
	in = putI32(in, -1)
	in = putI32(in, -1)
	conn := newVconn(in)
	srv.HandleDaemonConn(context.Background(), NewConnection(conn, conn, "192.0.2.7:999"))
	if vsymbolic() {
		dir := mod.Name
		for _, ev := range fsys.Events {
			if ev.Rejected {
				continue
			}
			if ev.Ambient {
				vassert(ev.Op == "os.OpenRoot" && ev.Path == mod.Path, "ambient file-system call other than OpenRoot(module path): "+ev.Op)
				continue
			}
			vassert(ev.Path == dir || strings.HasPrefix(ev.Path, dir+"/"), "the sender looked at an object outside the requested module: "+ev.Op)
		}
	}
	// nothing of the other module or of the outside file may appear on the wire
	out := string(conn.out)
	other := "b"
	if which == 1 {
		other = "a"
	}
	_ = other
	_ = out
	vreach("done")
}

func init() { verifHarnesses["HDisclose"] = HDisclose }
