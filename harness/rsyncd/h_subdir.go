package rsyncd

import (
	"context"
	"io"
	"strings"

	"github.com/gokrazy/rsync/internal/rsyncopts"
	"github.com/gokrazy/rsync/internal/vfsx"
)

// HUploadSubdir (C05): a daemon upload names an arbitrary sub-directory argument (any
// bytes: "..", "/..", "a/../..", absolute paths ...). The only ambient file-system calls
// allowed are MkdirAll/OpenRoot on the module's configured path itself; everything else -
// including the descent into the sub-directory - must go through root handles, and
// nothing outside the module may change.
func HUploadSubdir() {
	n := vparam("n")
	fsys := vfsx.New()
	defer fsys.Cleanup()
	fsys.Add(&vfsx.Node{Name: "mod", Kind: vfsx.KDir, Perm: 0o755})
	fsys.Add(&vfsx.Node{Name: "outside", Kind: vfsx.KReg, Perm: 0o600, Data: []byte{9}})
	modPath := "/m/mod"
	if p := fsys.RealPath(); p != "" {
		modPath = p + "/mod"
	}
	vfsx.AmbientRoots[modPath] = "mod"
	mod := Module{Name: "mod", Path: modPath, Writable: true}
	srv, err := NewServer([]Module{mod}, DontRestrict(), WithStderr(io.Discard))
	vassert(err == nil, "NewServer")
	if err != nil {
		return
	}
	sub := nd_string(n)
	for i := 0; i < len(sub); i++ {
		vassume(sub[i] != 0)
	}
	if len(sub) > 0 {
		vassume(sub[0] != '-') // an option, not a path
	}
	fl := rsyncopts.VerifFlags{Sender: true, Recurse: true, XferDirs: 1}
	args := append(rsyncopts.VerifOptions(fl).ServerOptions(), ".", sub)
	// the sender's side: version, then an empty file list and the closing markers
	var in []byte
	in = putI32(in, 27)
	in = append(in, 0)
	in = putI32(in, 0)
	in = putI32(in, -1)
	in = putI32(in, -1)
	in = putI32(in, -1)
	conn := newVconn(in)
	srv.HandleConnArgs(context.Background(), NewConnection(conn, conn, "peer"), &mod, args)
	if vsymbolic() {
		for _, ev := range fsys.Events {
			if ev.Ambient {
				ok := (ev.Op == "os.MkdirAll" || ev.Op == "os.OpenRoot") && ev.Path == modPath
				vassert(ok, "ambient file-system call on something other than the module path: "+ev.Op)
			}
			if ev.Mutates && !ev.Ambient {
				vassert(ev.Path == "mod" || strings.HasPrefix(ev.Path, "mod/"), "mutating event outside the module: "+ev.Op)
			}
		}
	}
	out := fsys.Get("outside")
	vassert(out.Kind == vfsx.KReg && len(out.Data) == 1 && out.Perm == 0o600, "an object outside the module changed")
	vreach("done")
}

func init() { verifHarnesses["HUploadSubdir"] = HUploadSubdir }
