package rsyncd

import (
	"context"
	"io"
	"io/fs"
	"strings"

	"github.com/gokrazy/rsync/internal/rsyncopts"
	"github.com/gokrazy/rsync/internal/vfsx"
)

type nullFS struct{}

func (nullFS) Open(name string) (fs.File, error) { return nil, fs.ErrNotExist }

// uploadLines is the daemon-protocol conversation of a client that wants to upload with the
// given options into modpath: greeting, module, one argument per line, empty line, then
// what a sender would transmit (an empty filter list if the server will ask for it, an
// empty file list).
func uploadLines(fl rsyncopts.VerifFlags, module, modpath string) []byte {
	fl.Sender = true // the client is the sender, so the server is asked to receive
	opts := rsyncopts.VerifOptions(fl)
	var in []byte
	in = append(in, "@RSYNCD: 27\n"...)
	in = append(in, module+"\n"...)
	for _, a := range opts.ServerOptions() {
		in = append(in, a+"\n"...)
	}
	in = append(in, ".\n"...)
	in = append(in, modpath+"\n"...)
	in = append(in, "\n"...)
	if fl.Delete {
		in = putI32(in, 0) // empty filter list
	}
	in = append(in, 0)   // end of file list
	in = putI32(in, 0)   // io errors
	in = putI32(in, -1)  // phase markers and goodbye from the sender
	in = putI32(in, -1)
	in = putI32(in, -1)
	return in
}

// HReadOnly (C07): a client asks the daemon to receive into a module, with any transfer
// options (incl. --delete, -n) and any sub-directory argument. If the module is not
// writable nothing in the model's file system is touched (no mutating event, not even an
// ambient MkdirAll/OpenRoot on the module path), the request fails, and the client gets an
// error frame. With a writable module the same conversation does reach the file system.
func HReadOnly() {
	fsys := vfsx.New()
	defer fsys.Cleanup()
	fsys.Add(&vfsx.Node{Name: "ro", Kind: vfsx.KDir, Perm: 0o755})
	fsys.Add(&vfsx.Node{Name: "ro/keep", Kind: vfsx.KReg, Perm: 0o644, Data: []byte{1}})
	fsys.Add(&vfsx.Node{Name: "rw", Kind: vfsx.KDir, Perm: 0o755})
	roPath, rwPath := "/m/ro", "/m/rw"
	if p := fsys.RealPath(); p != "" {
		roPath, rwPath = p+"/ro", p+"/rw"
	}
	vfsx.AmbientRoots[roPath] = "ro"
	vfsx.AmbientRoots[rwPath] = "rw"
	mods := []Module{
		{Name: "ro", Path: roPath},
		{Name: "rw", Path: rwPath, Writable: true},
		{Name: "fsmod", FS: nullFS{}},
	}
	srv, err := NewServer(mods, DontRestrict(), WithStderr(io.Discard))
	vassert(err == nil, "NewServer")
	if err != nil {
		return
	}
	which := nd_range(0, 2)
	name := mods[which].Name
	fl := rsyncopts.VerifFlags{Recurse: nd_bool(), XferDirs: 1, Delete: nd_bool(), DryRun: nd_bool(), Perms: nd_bool(), Times: nd_bool()}
	modpath := name + "/"
	if nd_bool() {
		modpath = name + "/sub"
	}
	conn := newVconn(uploadLines(fl, name, modpath))
	before := len(fsys.Events)
	err = srv.HandleDaemonConn(context.Background(), NewConnection(conn, conn, "192.0.2.1:1234"))
	if mods[which].Writable {
		vassert(err == nil, "upload into a writable module failed")
		if vsymbolic() {
			vassert(len(fsys.Events) > before, "writable module: the file system was never consulted")
		}
		vreach("writable")
		return
	}
	vassert(err != nil, "upload into a read-only module was not refused")
	if vsymbolic() {
		for _, ev := range fsys.Events[before:] {
			vassert(false, "read-only module: a file-system operation was performed: "+ev.Op)
		}
	}
	vassert(fsys.Get("ro/keep").Kind == vfsx.KReg, "read-only module content changed")
	vassert(fsys.Get("ro/sub").Kind == vfsx.KAbsent, "read-only module: sub-directory created")
	// the client is told: an error frame (tag 7+1) follows the greeting/OK/seed
	out := string(conn.out)
	vassert(strings.Contains(out, "@RSYNCD: OK\n"), "module was not accepted before the refusal")
	vassert(strings.Contains(out, "read only"), "no error message reached the client")
	vreach("refused")
}

// HValidateModule (C07): fs.FS-backed modules can never be writable.
func HValidateModule() {
	m := Module{Name: "x", Writable: nd_bool()}
	if nd_bool() {
		m.FS = nullFS{}
	}
	if nd_bool() {
		m.Path = "/p"
	}
	_, err := NewServer([]Module{m}, DontRestrict(), WithStderr(io.Discard))
	if m.FS != nil && m.Writable {
		vassert(err != nil, "a writable fs.FS module was accepted")
		vreach("rejected")
	}
	if err == nil {
		vassert(!(m.FS != nil && m.Writable), "accepted module is fs.FS-backed and writable")
		vreach("accepted")
	}
}

func init() {
	verifHarnesses["HReadOnly"] = HReadOnly
	verifHarnesses["HValidateModule"] = HValidateModule
}
