package PKG

// Reference codec for the rsync protocol-27 file list, written from the protocol
// description (rsync 2.6.x flist.c send_file_entry/receive_file_entry, io.c
// write_longint) and independent of the code under test.

const (
	refTopDir   = 1 << 0
	refSameMode = 1 << 1
	refSameRdev = 1 << 2
	refSameUid  = 1 << 3
	refSameGid  = 1 << 4
	refSameName = 1 << 5
	refLongName = 1 << 6
	refSameTime = 1 << 7
)

type refEntry struct {
	Name   string
	Length int64
	Mtime  int32
	Mode   int32
	Uid    int32
	Gid    int32
	Rdev   int32
	Target string
	Sum    [16]byte
}

// Devices and Specials: rsync 2.6.x has a single preserve_devices switch covering both;
// rsync 3.x (also when speaking protocol 27) sends the rdev field for device nodes under
// --devices and for fifos/sockets under --specials. With both equal the two coincide.
type refOpts struct {
	Uid, Gid, Devices, Specials, Links, Checksum bool
}

func (o refOpts) hasRdev(mode int32) bool {
	t := mode & 0o170000
	isDev := t == 0o020000 || t == 0o060000
	isSpecial := t == 0o140000 || t == 0o010000
	return (o.Devices && isDev) || (o.Specials && isSpecial)
}

// refChoice are the liberties a conforming sender has for one entry.
type refChoice struct {
	SameName  int  // number of leading bytes shared with the previous name (0 = flag off)
	LongName  bool // 4-byte name length
	SameMode  bool
	SameTime  bool
	SameUid   bool
	SameGid   bool
	SameRdev  bool
	TopDir    bool
	LongForm  bool // send the length in the 12-byte form even if it would fit
}

func refIsDevice(mode int32) bool {
	t := mode & 0o170000
	return t == 0o020000 || t == 0o060000 || t == 0o140000 || t == 0o010000
}

func refPutI32(b []byte, v int32) []byte {
	return append(b, byte(v), byte(v>>8), byte(v>>16), byte(v>>24))
}

func refPutI64(b []byte, v int64, long bool) []byte {
	if v >= 0 && v <= 0x7fffffff && !long {
		return refPutI32(b, int32(v))
	}
	b = refPutI32(b, -1)
	for i := 0; i < 8; i++ {
		b = append(b, byte(v>>(8*uint(i))))
	}
	return b
}

// refEncodeEntry appends one entry. prev is the previous entry (zero value for the first).
func refEncodeEntry(b []byte, e, prev *refEntry, c refChoice, o refOpts) []byte {
	flags := byte(0)
	if c.TopDir {
		flags |= refTopDir
	}
	if c.SameMode {
		flags |= refSameMode
	}
	if c.SameTime {
		flags |= refSameTime
	}
	if o.Uid && c.SameUid {
		flags |= refSameUid
	}
	if o.Gid && c.SameGid {
		flags |= refSameGid
	}
	if o.hasRdev(e.Mode) && c.SameRdev {
		flags |= refSameRdev
	}
	l1 := 0
	if c.SameName > 0 {
		flags |= refSameName
		l1 = c.SameName
	}
	l2 := len(e.Name) - l1
	if c.LongName || l2 > 255 {
		flags |= refLongName
	}
	if flags == 0 {
		// a zero flags byte would end the list
		if e.Mode&0o170000 != 0o040000 {
			flags |= refTopDir
		} else {
			flags |= refLongName
		}
	}
	b = append(b, flags)
	if flags&refSameName != 0 {
		b = append(b, byte(l1))
	}
	if flags&refLongName != 0 {
		b = refPutI32(b, int32(l2))
	} else {
		b = append(b, byte(l2))
	}
	b = append(b, e.Name[l1:]...)
	b = refPutI64(b, e.Length, c.LongForm)
	if flags&refSameTime == 0 {
		b = refPutI32(b, e.Mtime)
	}
	if flags&refSameMode == 0 {
		b = refPutI32(b, e.Mode)
	}
	if o.Uid && flags&refSameUid == 0 {
		b = refPutI32(b, e.Uid)
	}
	if o.Gid && flags&refSameGid == 0 {
		b = refPutI32(b, e.Gid)
	}
	if o.hasRdev(e.Mode) && flags&refSameRdev == 0 {
		b = refPutI32(b, e.Rdev)
	}
	if o.Links && e.Mode&0o170000 == 0o120000 {
		b = refPutI32(b, int32(len(e.Target)))
		b = append(b, e.Target...)
	}
	if o.Checksum {
		b = append(b, e.Sum[:]...)
	}
	return b
}

// refEncodeTail appends the end-of-list marker, the (empty) id lists and the I/O error word.
func refEncodeTail(b []byte, o refOpts, ioErrors int32) []byte {
	b = append(b, 0)
	if o.Uid {
		b = refPutI32(b, 0)
	}
	if o.Gid {
		b = refPutI32(b, 0)
	}
	return refPutI32(b, ioErrors)
}

// refID is one (id, name) pair of an id list; refUidList/refGidList hold the lists found by
// the last refDecodeList call.
type refID struct {
	ID   int32
	Name string
}

var refUidList, refGidList []refID

type refReader struct {
	b   []byte
	pos int
	bad bool
}

func (r *refReader) u8() byte {
	if r.pos+1 > len(r.b) {
		r.bad = true
		return 0
	}
	v := r.b[r.pos]
	r.pos++
	return v
}

func (r *refReader) i32() int32 {
	if r.pos+4 > len(r.b) {
		r.bad = true
		return 0
	}
	v := int32(uint32(r.b[r.pos]) | uint32(r.b[r.pos+1])<<8 | uint32(r.b[r.pos+2])<<16 | uint32(r.b[r.pos+3])<<24)
	r.pos += 4
	return v
}

func (r *refReader) i64() int64 {
	v := r.i32()
	if v != -1 {
		return int64(v)
	}
	if r.pos+8 > len(r.b) {
		r.bad = true
		return 0
	}
	var x uint64
	for i := 0; i < 8; i++ {
		x |= uint64(r.b[r.pos+i]) << (8 * uint(i))
	}
	r.pos += 8
	return int64(x)
}

func (r *refReader) bytes(n int) []byte {
	if n < 0 || r.pos+n > len(r.b) {
		r.bad = true
		return nil
	}
	v := r.b[r.pos : r.pos+n]
	r.pos += n
	return v
}

// refDecodeList decodes a whole file list (entries, id lists, I/O error word).
// maxEntries bounds the loop; ok=false on malformed or truncated input.
func refDecodeList(b []byte, o refOpts, maxEntries int) (ents []refEntry, ioErrors int32, consumed int, ok bool) {
	r := &refReader{b: b}
	refUidList, refGidList = nil, nil
	var prev refEntry
	for n := 0; ; n++ {
		flags := r.u8()
		if r.bad {
			return nil, 0, 0, false
		}
		if flags == 0 {
			break
		}
		if n >= maxEntries {
			return nil, 0, 0, false
		}
		var e refEntry
		l1 := 0
		if flags&refSameName != 0 {
			l1 = int(r.u8())
		}
		l2 := 0
		if flags&refLongName != 0 {
			l2 = int(r.i32())
		} else {
			l2 = int(r.u8())
		}
		if r.bad || l1 > len(prev.Name) {
			return nil, 0, 0, false
		}
		rest := r.bytes(l2)
		if r.bad {
			return nil, 0, 0, false
		}
		e.Name = prev.Name[:l1] + string(rest)
		e.Length = r.i64()
		if flags&refSameTime != 0 {
			e.Mtime = prev.Mtime
		} else {
			e.Mtime = r.i32()
		}
		if flags&refSameMode != 0 {
			e.Mode = prev.Mode
		} else {
			e.Mode = r.i32()
		}
		if o.Uid {
			if flags&refSameUid != 0 {
				e.Uid = prev.Uid
			} else {
				e.Uid = r.i32()
			}
		}
		if o.Gid {
			if flags&refSameGid != 0 {
				e.Gid = prev.Gid
			} else {
				e.Gid = r.i32()
			}
		}
		if o.hasRdev(e.Mode) {
			if flags&refSameRdev != 0 {
				e.Rdev = prev.Rdev
			} else {
				e.Rdev = r.i32()
			}
		}
		if o.Links && e.Mode&0o170000 == 0o120000 {
			tl := int(r.i32())
			t := r.bytes(tl)
			if r.bad {
				return nil, 0, 0, false
			}
			e.Target = string(t)
		}
		if o.Checksum {
			s := r.bytes(16)
			if r.bad {
				return nil, 0, 0, false
			}
			copy(e.Sum[:], s)
		}
		if r.bad {
			return nil, 0, 0, false
		}
		ents = append(ents, e)
		prev = e
	}
	// id lists: (id, len, name)* 0
	for pass := 0; pass < 2; pass++ {
		if (pass == 0 && !o.Uid) || (pass == 1 && !o.Gid) {
			continue
		}
		for k := 0; ; k++ {
			id := r.i32()
			if r.bad || k > 8 {
				return nil, 0, 0, false
			}
			if id == 0 {
				break
			}
			nl := int(r.u8())
			nm := r.bytes(nl)
			if r.bad {
				return nil, 0, 0, false
			}
			if pass == 0 {
				refUidList = append(refUidList, refID{id, string(nm)})
			} else {
				refGidList = append(refGidList, refID{id, string(nm)})
			}
		}
	}
	ioErrors = r.i32()
	if r.bad {
		return nil, 0, 0, false
	}
	return ents, ioErrors, r.pos, true
}
