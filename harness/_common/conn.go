package PKG

import (
	"io"
)

// vconn is the fake connection: reads come from a fixed byte string, writes are collected.
type vconn struct {
	in  []byte
	pos int
	out []byte
	// writeLimit >= 0: the writer fails once that many bytes were written (connection loss)
	writeLimit int
	failed     bool
}

func newVconn(in []byte) *vconn { return &vconn{in: in, writeLimit: -1} }

func (c *vconn) Read(p []byte) (int, error) {
	if c.pos >= len(c.in) {
		return 0, io.EOF
	}
	n := copy(p, c.in[c.pos:])
	c.pos += n
	return n, nil
}

func (c *vconn) Write(p []byte) (int, error) {
	if c.writeLimit >= 0 && len(c.out)+len(p) > c.writeLimit {
		c.failed = true
		return 0, io.ErrClosedPipe
	}
	c.out = append(c.out, p...)
	return len(p), nil
}

// wire helpers (little endian), independent of the code under test.
func putI32(b []byte, v int32) []byte {
	return append(b, byte(v), byte(v>>8), byte(v>>16), byte(v>>24))
}

func getI32(b []byte, off int) int32 {
	return int32(uint32(b[off]) | uint32(b[off+1])<<8 | uint32(b[off+2])<<16 | uint32(b[off+3])<<24)
}

type vlogger struct{}

func (vlogger) Printf(msg string, a ...any)          {}
func (vlogger) Output(calldepth int, s string) error { return nil }

// symTarget is a symbolic symlink target without NUL bytes (the kernel rejects those).
func symTarget(n int) string {
	b := nd_bytes(n)
	for _, c := range b {
		vassume(c != 0)
	}
	return string(b)
}
