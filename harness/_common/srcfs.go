package PKG

import (
	"io"
	"io/fs"
	"time"
)

// vinfo is a synthetic fs.FileInfo.
type vinfo struct {
	name  string
	size  int64
	mode  fs.FileMode
	mtime time.Time
	sys   any
}

func (i *vinfo) Name() string       { return i.name }
func (i *vinfo) Size() int64        { return i.size }
func (i *vinfo) Mode() fs.FileMode  { return i.mode }
func (i *vinfo) ModTime() time.Time { return i.mtime }
func (i *vinfo) IsDir() bool        { return i.mode.IsDir() }
func (i *vinfo) Sys() any           { return i.sys }

// vfile is an in-memory file implementing fs.File + io.Seeker + io.ReaderAt.
type vfile struct {
	data []byte
	off  int64
	info *vinfo
}

func (f *vfile) Stat() (fs.FileInfo, error) { return f.info, nil }
func (f *vfile) Close() error               { return nil }
func (f *vfile) Read(p []byte) (int, error) {
	if f.off >= int64(len(f.data)) {
		return 0, io.EOF
	}
	n := copy(p, f.data[f.off:])
	f.off += int64(n)
	return n, nil
}
func (f *vfile) Seek(offset int64, whence int) (int64, error) {
	switch whence {
	case io.SeekStart:
		f.off = offset
	case io.SeekCurrent:
		f.off += offset
	case io.SeekEnd:
		f.off = int64(len(f.data)) + offset
	}
	return f.off, nil
}
