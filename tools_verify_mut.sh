#!/bin/bash
# usage: tools_verify_mut.sh <worktree> <mN>   -- confirms a seeded mutant in its scratch worktree
wt=$1; m=$2
cd $wt || exit 2
export GOFLAGS=-mod=mod GOPROXY=off
git checkout -q -- . ; git clean -fdq -e _mutants
demo=_mutants/${m}_demo_test.go
dir=$(head -5 $demo | grep -i 'place' | grep -oE '(internal|integration|rsyncd|rsyncclient|cmd)[a-z/]*' | head -1)
[ -z "$dir" ] && { echo "$wt $m: no place-in line"; exit 2; }
git apply _mutants/$m.diff || { echo "$wt $m: diff does not apply"; exit 2; }
go build ./... || { echo "$wt $m: BUILD FAILS"; git checkout -q -- .; exit 1; }
if go test -count=1 -vet=off ./... > /tmp/vm-$$.log 2>&1; then suite=pass; else suite=FAIL; fi
cp $demo $dir/zz_mutdemo_test.go
tests=$(grep -oE '^func (Test[A-Za-z0-9_]+)' $demo | awk '{print $2}' | paste -sd'|')
if go test -count=1 -vet=off -run "^($tests)\$" ./$dir > /tmp/vm-demo-$$.log 2>&1; then demo_mut=pass; else demo_mut=fail; fi
git checkout -q -- .
if go test -count=1 -vet=off -run "^($tests)\$" ./$dir > /tmp/vm-demo2-$$.log 2>&1; then demo_clean=pass; else demo_clean=FAIL; fi
rm -f $dir/zz_mutdemo_test.go
echo "$wt $m: suite_with_mutant=$suite demo_with_mutant=$demo_mut demo_clean=$demo_clean dir=$dir"
rm -f /tmp/vm-$$.log /tmp/vm-demo-$$.log /tmp/vm-demo2-$$.log
