#!/bin/bash
# usage: tools_eval_mut.sh <prop> <diff> [extra check args]  -- run a check against a seeded change, then undo it
p=$1; d=$2; shift 2
git -C /repo status --short | grep -q . && { echo "repo dirty"; exit 2; }
git -C /repo apply $d || { echo "apply failed"; exit 2; }
timeout 1500 /verif/bin/check $p "$@" 2>&1 | egrep "VIOLATION|KNOWN|ENGINE|INCONCL|VACUOUS|ENCODING|^  [a-z]+:|tier=" | cut -c1-260
git -C /repo checkout -- .
