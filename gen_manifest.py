#!/usr/bin/env python3
"""Regenerates MANIFEST.json from the table below (claimed properties and their level texts)."""
import json
T = "bounded symbolic execution of the real go/ssa of /repo (own SSA->SMT-LIB executor); every branch and proof obligation decided by z3 over bit-vectors; counterexamples replayed natively"
NOTE = "trusted: go/ssa front end, z3; environment stubs listed in the evidence file (vfsx file-system model for os.Root/renameio, ideal-hash MD4, sequentialised goroutines); bounds stated in coverage.bounds"
claimed = {
 "C01": "Bounded: per regular file, the three real stages generator -> sender -> receiver composed; destination == source bytes (or skipped with equal sizes) for every source content, prior destination state, seed, mtime and -c -I -t -p; the same at the real block size (700..1401-byte files with symbolic bytes); two files in one sender session; a pull of one file through the real client stack; a directory push through the real client, option plumbing and receiving server.",
 "C05": "Bounded: hostile file lists (arbitrary name bytes, any type) and arbitrary daemon sub-directory arguments: every file-system effect goes through the destination root handle, descriptor-relative calls use a plain base name; os.Root's own confinement is trusted.",
 "C06": "Bounded: daemon text protocol with arbitrary request paths below modules whose names are prefixes of one another: every object the sender looks at lies inside the requested module; only ambient call is OpenRoot(module path).",
 "C07": "Bounded: daemon text protocol end to end for read-only / writable / fs.FS modules under every subset of -r --delete -n -p -t and sub-directory targets: not writable => no file-system event at all, error + error frame.",
 "C13": "Bounded: k symbolic plain-name exclude/include rules through the real wire parser vs first-match reference on symbolic names; walk over symbolic trees (later siblings of excluded files, subtrees of excluded directories); client-side sender honours the user's rules.",
 "C14": "Bounded: every subset of the transfer options in both directions: client ServerOptions() -> real server parser agreement; encoder/decoder stream agreement under all field-adding options; push end to end through real option plumbing incl. --delete.",
 "C19": "Bounded: rule lists up to length 2 (thorough 3) over allow/deny/malformed x all/symbolic IPv4 and IPv6 networks/malformed, client IPv4, IPv6, IPv4-mapped: checkACL == first-match reference; real net.IPNet.Contains executed.",
 "C20": "Bounded: key admission through the real Serve/PublicKeyCallback for symbolic key blobs and key sets; channel/request dispatch for symbolic types; command lines from a 12-word vocabulary through the SSH command callback and the real option parser: only the daemon protocol is reachable.",
 "C02": "Bounded model checking: sender token stream vs an independent reference receiver for all bases/targets/seeds up to the stated lengths and block sizes (incl. weak-checksum collisions next to duplicated blocks, two-file sessions); receiver vs all scripted token streams; the sender's read window on files larger than 256 KiB for the request shapes the delta search makes. Exhaustive inside the bound by SMT, nothing claimed outside.",
 "C03": "Bounded: adversarial data segments (symbolic header, tokens, trailer, basis): commit only if the content matches the received whole-file checksum; error => no rename, temp file cleaned up.",
 "C04": "Bounded, event-prefix form of crash atomicity: invariant on the destination paths after every file-system event of the model, for truncation offsets of the stream, adversarial segments, a two-file session with a damaged second file, and symlink replacement.",
 "C08": "Bounded: every parser of peer bytes is executed on an arbitrary byte string of bounded length; implicit obligations (no panic, index/slice bounds, negative make, exit) are solver queries on every path.",
 "C09": "Bounded: delete pass over symbolic trees (names, kinds, listed subset, dry-run, io-error flag symbolic) through the real io/fs.WalkDir; survivors = listed entries; binary search vs membership.",
 "C10": "Bounded: with DryRun set no mutating or ambient file-system event occurs for an entry of any type over any prior object under any other option; sender emits index echoes only.",
 "C11": "Bounded: metadata survives the wire (sender encoder -> reference decoder, reference encoder -> receiver decoder) for all field values; receiver's post-state carries type/perms/mtime/target/rdev/owner per option for any prior object.",
 "C12": "Bounded: request decision == update rule for all sizes/mtimes (int32 seconds, any nanoseconds)/checksums/options; idempotence as one inductive step.",
 "C15": "Bounded: 64-bit integer wire form for all values; every reference-encoded protocol-27 list (sender liberties symbolic) decodes to the entries sent; the real encoder's output decodes with an independent reference decoder.",
 "C16": "Bounded: identical file => zero literals; match found at every byte offset where the basis has the data (symbolic offset, arbitrary contents incl. bytes >= 0x80); literal bound for prefix/suffix edits.",
 "C17": "Bounded: k frames with symbolic tag/length/payload read in symbolic chunk sizes through the real bufio.Reader; size-limit frames; runs of info frames; writer header/payload; a whole pull through the real client (ClientRun) with a 40000-byte and a maximum-size data frame and an interleaved info frame.",
}
na = {
 "C18": "quantifies over goroutine schedules, transport buffering and data races; needs a concurrency-aware symbolic interpreter (channels, errgroup, io.Pipe, net) that a hand-written SSA executor does not provide; the reachable reductions are not decided by a solver",
}
todo = "harness not built yet in this session (work in progress)"
allp = [f"C{n:02d}" for n in range(1, 21)]
checks = []
for pid in allp:
    if pid not in claimed:
        continue
    checks.append({
        "property_id": pid,
        "quick_cmd": f"/verif/bin/check {pid} --tier quick",
        "thorough_cmd": f"/verif/bin/check {pid} --tier thorough",
        "evidence_file": f"/verif/evidence/{pid}.json",
        "replay_cmd_template": "/verif/bin/check --replay {path}",
        "engine": "symgo",
        "level_claimed": {"category": "model_checking", "text": claimed[pid], "design_ref": "DESIGN.md section 3, " + pid},
        "level_note": NOTE,
        "technique": T,
    })
m = {
 "version": 1,
 "setup_cmd": "/verif/setup.sh",
 "hooks": {"guard": "verif", "enable": "no source hooks: harness files are injected with go/packages overlays (symbolic run) and go test -overlay (native replay); /repo carries only fix: commits", "baseline_off_cmd": "cd /repo && go test -count=1 -vet=off ./...", "source_commits": [], "add_only": True},
 "engines": [{"name": "symgo", "path": "/verif/symgo", "serves_properties": [c["property_id"] for c in checks], "kind_free_text": "own go/ssa -> SMT-LIB2 path-wise symbolic executor, z3 back end (incremental + one-shot fallback)"}],
 "checks": checks,
 "not_applicable": [{"property_id": p, "reason": na.get(p, todo)} for p in allp if p not in claimed],
 "notes": "All checks: /verif/bin/check <id> --tier quick|thorough. Known findings and fixed defects: /verif/known_findings.json. See DESIGN.md.",
}
json.dump(m, open("/verif/MANIFEST.json", "w"), indent=1)
print("claimed:", [c["property_id"] for c in checks])
