#!/usr/bin/env python3
"""Regenerates MANIFEST.json from the table below (claimed properties and their level texts)."""
import json
T = "bounded symbolic execution of the real go/ssa of /repo (own SSA->SMT-LIB executor); every branch and proof obligation decided by z3 over bit-vectors; counterexamples replayed natively"
NOTE = "trusted: go/ssa front end, z3; environment stubs listed in the evidence file (vfsx file-system model for os.Root/renameio, ideal-hash MD4, sequentialised goroutines); bounds stated in coverage.bounds"
claimed = {
 "C02": "Bounded model checking: sender token stream vs an independent reference receiver for all bases/targets/seeds up to the stated lengths and block sizes; receiver vs all scripted token streams. Exhaustive inside the bound by SMT, nothing claimed outside.",
 "C03": "Bounded: adversarial data segments (symbolic header, tokens, trailer, basis): commit only if the content matches the received whole-file checksum; error => no rename, temp file cleaned up.",
 "C04": "Bounded, event-prefix form of crash atomicity: invariant on the destination path after every file-system event of the model, for every truncation offset of the stream.",
 "C08": "Bounded: every parser of peer bytes is executed on an arbitrary byte string of bounded length; implicit obligations (no panic, index/slice bounds, negative make, exit) are solver queries on every path.",
 "C09": "Bounded: delete pass over symbolic trees (names, kinds, listed subset, dry-run, io-error flag symbolic) through the real io/fs.WalkDir; survivors = listed entries; binary search vs membership.",
 "C10": "Bounded: with DryRun set no mutating or ambient file-system event occurs for an entry of any type over any prior object under any other option; sender emits index echoes only.",
 "C11": "Bounded: metadata survives the wire (sender encoder -> reference decoder, reference encoder -> receiver decoder) for all field values; receiver's post-state carries type/perms/mtime/target/rdev/owner per option for any prior object.",
 "C12": "Bounded: request decision == update rule for all sizes/mtimes (int32 seconds, any nanoseconds)/checksums/options; idempotence as one inductive step.",
 "C15": "Bounded: 64-bit integer wire form for all values; every reference-encoded protocol-27 list (sender liberties symbolic) decodes to the entries sent; the real encoder's output decodes with an independent reference decoder.",
 "C16": "Bounded: identical file => zero literals; match found at every byte offset where the basis has the data (symbolic offset, arbitrary contents incl. bytes >= 0x80); literal bound for prefix/suffix edits.",
 "C17": "Bounded: k frames with symbolic tag/length/payload read in symbolic chunk sizes through the real bufio.Reader; size-limit frames; runs of info frames; writer header/payload.",
}
na = {
 "C18": "quantifies over goroutine schedules, transport buffering and data races; needs a concurrency-aware symbolic interpreter (channels, errgroup, io.Pipe, net) that a hand-written SSA executor does not provide; the reachable reductions are not decided by a solver",
}
todo = "harness not built yet in this session (work in progress)"
allp = [f"C{n:02d}" for n in range(1, 21)]
checks = []
for pid in allp:
    if pid not in claimed:
        continue
    checks.append({
        "property_id": pid,
        "quick_cmd": f"/verif/bin/check {pid} --tier quick",
        "thorough_cmd": f"/verif/bin/check {pid} --tier thorough",
        "evidence_file": f"/verif/evidence/{pid}.json",
        "replay_cmd_template": "/verif/bin/check --replay {path}",
        "engine": "symgo",
        "level_claimed": {"category": "model_checking", "text": claimed[pid], "design_ref": "DESIGN.md section 3, " + pid},
        "level_note": NOTE,
        "technique": T,
    })
m = {
 "version": 1,
 "setup_cmd": "/verif/setup.sh",
 "hooks": {"guard": "verif", "enable": "no source hooks: harness files are injected with go/packages overlays (symbolic run) and go test -overlay (native replay); /repo carries only fix: commits", "baseline_off_cmd": "cd /repo && go test -count=1 -vet=off ./...", "source_commits": [], "add_only": True},
 "engines": [{"name": "symgo", "path": "/verif/symgo", "serves_properties": [c["property_id"] for c in checks], "kind_free_text": "own go/ssa -> SMT-LIB2 path-wise symbolic executor, z3 back end (incremental + one-shot fallback)"}],
 "checks": checks,
 "not_applicable": [{"property_id": p, "reason": na.get(p, todo)} for p in allp if p not in claimed],
 "notes": "All checks: /verif/bin/check <id> --tier quick|thorough. Known findings and fixed defects: /verif/known_findings.json. See DESIGN.md.",
}
json.dump(m, open("/verif/MANIFEST.json", "w"), indent=1)
print("claimed:", [c["property_id"] for c in checks])
