#!/bin/bash
# Runs every registered check (default tier quick) and prints a one-line summary per property.
tier=${1:-quick}
for p in ${PROPS:-C01 C02 C03 C04 C05 C06 C07 C08 C09 C10 C11 C12 C13 C14 C15 C16 C17 C19 C20}; do
  start=$(date +%s)
  /verif/bin/check $p --tier $tier > /verif/out/$p.$tier.log 2>&1
  rc=$?
  echo "$p exit=$rc $(( $(date +%s) - start ))s $(tail -1 /verif/out/$p.$tier.log | cut -c1-150)"
done
