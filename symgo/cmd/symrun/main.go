// symrun: development driver — run one harness function symbolically.
package main

import (
	"encoding/json"
	"flag"
	"fmt"
	"os"
	"path/filepath"
	"strings"
	"strconv"

	"verif/symgo/sym"
)

func main() {
	repo := flag.String("repo", "/repo", "repository root")
	hdir := flag.String("hdir", "/verif/harness", "harness root")
	pkg := flag.String("pkg", "", "package dir relative to repo, e.g. internal/rsyncwire")
	fn := flag.String("fn", "", "harness function name")
	workers := flag.Int("j", 8, "workers")
	verbose := flag.Bool("v", false, "verbose")
	logsmt := flag.String("logsmt", "", "dir for SMT transcripts")
	solver := flag.String("solver", "z3", "solver binary")
	fresh := flag.Bool("fresh", false, "non-incremental solver queries")
	logic := flag.String("logic", "", "set-logic in fresh mode")
	slow := flag.Int("slow", 0, "log queries slower than this many ms")
	maxsteps := flag.Int("maxsteps", 20000000, "per-path step budget")
	quickms := flag.Int("quickms", 1000, "incremental solver timeout before falling back to one-shot")
	params := flag.String("p", "", "instance parameters k=v,k=v")
	flag.Parse()

	hp, err := sym.HarnessPackages(*hdir)
	if err != nil {
		fmt.Println(err)
		os.Exit(2)
	}
	overlay, err := sym.HarnessOverlay(*repo, *hdir, hp, false)
	if err != nil {
		fmt.Println("overlay:", err)
		os.Exit(2)
	}
	var pats []string
	for _, p := range hp {
		pats = append(pats, "./"+p)
	}
	eng, err := sym.Load(*repo, pats, overlay, "")
	if err != nil {
		fmt.Println("load:", err)
		os.Exit(2)
	}
	for k, v := range sym.VfsRedirects() {
		eng.Redirects[k] = v
	}
	if *pkg == "rsyncd" {
		const r = "github.com/gokrazy/rsync/rsyncd."
		eng.Redirects["net.SplitHostPort"] = r + "VSplitHostPort"
		eng.Redirects["net.ParseIP"] = r + "VParseIP"
		eng.Redirects["net.ParseCIDR"] = r + "VParseCIDR"
	}
	if *pkg == "internal/maincmd" {
		for k, v := range sym.SSHExecRedirects() {
			eng.Redirects[k] = v
		}
	}
	if *pkg == "internal/anonssh" {
		for k, v := range sym.SSHRedirects() {
			eng.Redirects[k] = v
		}
	}
	eng.MaxSteps = *maxsteps
	eng.Verbose = *verbose
	eng.LogSMT = *logsmt
	eng.SolverBin = *solver
	eng.Fresh = *fresh
	eng.QuickMs = *quickms
	eng.SlowMs = *slow
	eng.SetLogic = *logic
	for _, kv := range strings.Split(*params, ",") {
		if k, v, ok := strings.Cut(kv, "="); ok {
			n, _ := strconv.Atoi(v)
			eng.Params[k] = n
		}
	}
	var h = eng.FindFunc(pkgPath(eng, *pkg) + "." + *fn)
	if h == nil {
		fmt.Println("harness not found")
		os.Exit(2)
	}
	sum := eng.Run(h, *workers)
	sum.Fns = nil
	b, _ := json.MarshalIndent(sum, "", " ")
	fmt.Println(string(b))
	if sum.EngineError != "" {
		os.Exit(2)
	}
	_ = filepath.Join
	_ = strings.TrimSpace
}

func pkgPath(e *sym.Engine, rel string) string {
	return "github.com/gokrazy/rsync/" + rel
}
