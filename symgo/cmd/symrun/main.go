// symrun: development driver — run one harness function symbolically.
package main

import (
	"encoding/json"
	"flag"
	"fmt"
	"os"
	"path/filepath"
	"strings"

	"verif/symgo/sym"
)

func main() {
	repo := flag.String("repo", "/repo", "repository root")
	hdir := flag.String("hdir", "/verif/harness", "harness root")
	pkg := flag.String("pkg", "", "package dir relative to repo, e.g. internal/rsyncwire")
	fn := flag.String("fn", "", "harness function name")
	workers := flag.Int("j", 8, "workers")
	verbose := flag.Bool("v", false, "verbose")
	logsmt := flag.String("logsmt", "", "dir for SMT transcripts")
	solver := flag.String("solver", "z3", "solver binary")
	flag.Parse()

	overlay, err := sym.HarnessOverlay(*repo, *hdir, []string{*pkg})
	if err != nil {
		fmt.Println("overlay:", err)
		os.Exit(2)
	}
	eng, err := sym.Load(*repo, []string{"./" + *pkg}, overlay, "")
	if err != nil {
		fmt.Println("load:", err)
		os.Exit(2)
	}
	eng.Verbose = *verbose
	eng.LogSMT = *logsmt
	eng.SolverBin = *solver
	var h = eng.FindFunc(pkgPath(eng, *pkg) + "." + *fn)
	if h == nil {
		fmt.Println("harness not found")
		os.Exit(2)
	}
	sum := eng.Run(h, *workers)
	sum.Fns = nil
	b, _ := json.MarshalIndent(sum, "", " ")
	fmt.Println(string(b))
	if sum.EngineError != "" {
		os.Exit(2)
	}
	_ = filepath.Join
	_ = strings.TrimSpace
}

func pkgPath(e *sym.Engine, rel string) string {
	return "github.com/gokrazy/rsync/" + rel
}
