package main

import (
	"time"

	"verif/symgo/sym"
)

var properties = map[string]*Property{}

func reg(p *Property) { properties[p.ID] = p }

func inst(pkg, fn string, kv ...any) Instance {
	in := Instance{Pkg: pkg, Fn: fn, Params: map[string]int{}}
	for i := 0; i+1 < len(kv); i += 2 {
		in.Params[kv[i].(string)] = kv[i+1].(int)
	}
	return in
}

func init() {
	reg(&Property{
		ID: "C02",
		Instances: func(tier string) []Instance {
			var out []Instance
			maxN, maxM, maxB := 3, 3, 2
			if tier == "thorough" {
				maxN, maxM, maxB = 5, 5, 3
			}
			for b := 1; b <= maxB; b++ {
				for m := 0; m <= maxM; m++ {
					for n := 1; n <= maxN; n++ {
						out = append(out, inst("internal/sender", "HDeltaSender", "n", n, "m", m, "b", b, "s2", 16))
					}
				}
			}
			ks := []int{1, 2}
			if tier == "thorough" {
				ks = []int{1, 2, 3, 4}
			}
			for _, k := range ks {
				for _, mb := range [][2]int{{0, 1}, {2, 1}, {3, 2}, {4, 2}, {5, 3}} {
					out = append(out, inst("internal/receiver", "HRecvScript", "m", mb[0], "b", mb[1], "k", k))
				}
			}
			return out
		},
		Redirects: sym.VfsRedirects(),
		MustReach: []string{"blockref", "literal", "end"},
		Bounds:    "sender: target length n and basis length m up to the tier's bound, block length b, all byte contents and seeds symbolic",
		Outside:   "files larger than the bound, the 256 KiB window/flush branch, real block lengths 700..131072",
		Timeout:   30 * time.Minute,
	})
	reg(&Property{
		ID: "C03",
		Instances: func(tier string) []Instance {
			var out []Instance
			ks := []int{1, 2}
			ms := []int{-1, 0, 2}
			if tier == "thorough" {
				ks = []int{1, 2, 3}
				ms = []int{-1, 0, 1, 2, 3}
			}
			for _, m := range ms {
				for _, k := range ks {
					out = append(out, inst("internal/receiver", "HRecvArbitrary", "m", m, "k", k, "cut", -1))
				}
			}
			return out
		},
		MustReach: []string{"commit", "commit-nonempty", "error"},
		Redirects: sym.VfsRedirects(),
		Bounds:    "adversarial data segment: symbolic header fields in -1..3, k tokens each a literal run of 1..2 symbolic bytes / a block reference 0..4 (valid or not) / a premature end marker, symbolic 16-byte trailer, symbolic basis of m bytes (m=-1: no basis file), symbolic seed",
		Outside:   "MD4 collisions (ideal-hash model); segments longer than the bound; declared sizes above 64 bytes",
		Assumptions: []string{"file-system operations go to the vfsx model (harness/internal/vfsx): rename is atomic, a pending file has a name that is not in the file list"},
	})
	reg(&Property{
		ID: "C04",
		Instances: func(tier string) []Instance {
			var out []Instance
			step := 3
			k := 1
			if tier == "thorough" {
				step = 1
				k = 2
			}
			for _, m := range []int{-1, 2} {
				for cut := 0; cut < 16+k*6+4+16; cut += step {
					out = append(out, inst("internal/receiver", "HRecvArbitrary", "m", m, "k", k, "cut", cut))
				}
				out = append(out, inst("internal/receiver", "HRecvArbitrary", "m", m, "k", k, "cut", -1))
			}
			return out
		},
		MustReach: []string{"commit", "error"},
		Redirects: sym.VfsRedirects(),
		Bounds:    "one regular file (new or replacing an m-byte file); stream as in C03 truncated at byte offset cut (quick: every 3rd offset; thorough: every offset, k=2); invariant checked after every file-system event",
		Outside:   "SIGKILL of a real process; atomicity of rename(2) and uniqueness of renameio's temp names are the model's contract",
		Assumptions: []string{"event-prefix form: the state after any prefix of the event log is what a crash at that point leaves behind"},
	})
	reg(&Property{
		ID: "C15",
		Instances: func(tier string) []Instance {
			return []Instance{inst("internal/rsyncwire", "HInt64RoundTrip")}
		},
		MustReach: []string{"short", "long"},
		Bounds:    "all 64-bit values",
	})
}
