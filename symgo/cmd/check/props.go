package main

import "time"

var properties = map[string]*Property{}

func reg(p *Property) { properties[p.ID] = p }

func inst(pkg, fn string, kv ...any) Instance {
	in := Instance{Pkg: pkg, Fn: fn, Params: map[string]int{}}
	for i := 0; i+1 < len(kv); i += 2 {
		in.Params[kv[i].(string)] = kv[i+1].(int)
	}
	return in
}

func init() {
	reg(&Property{
		ID: "C02",
		Instances: func(tier string) []Instance {
			var out []Instance
			maxN, maxM, maxB := 3, 3, 2
			if tier == "thorough" {
				maxN, maxM, maxB = 5, 5, 3
			}
			for b := 1; b <= maxB; b++ {
				for m := 0; m <= maxM; m++ {
					for n := 1; n <= maxN; n++ {
						out = append(out, inst("internal/sender", "HDeltaSender", "n", n, "m", m, "b", b, "s2", 16))
					}
				}
			}
			return out
		},
		MustReach: []string{"blockref", "literal", "end"},
		Bounds:    "sender: target length n and basis length m up to the tier's bound, block length b, all byte contents and seeds symbolic",
		Outside:   "files larger than the bound, the 256 KiB window/flush branch, real block lengths 700..131072",
		Timeout:   30 * time.Minute,
	})
	reg(&Property{
		ID: "C15",
		Instances: func(tier string) []Instance {
			return []Instance{inst("internal/rsyncwire", "HInt64RoundTrip")}
		},
		MustReach: []string{"short", "long"},
		Bounds:    "all 64-bit values",
	})
}
