package main

import (
	"time"

	"verif/symgo/sym"
)

var properties = map[string]*Property{}

func reg(p *Property) { properties[p.ID] = p }

func inst(pkg, fn string, kv ...any) Instance {
	in := Instance{Pkg: pkg, Fn: fn, Params: map[string]int{}}
	for i := 0; i+1 < len(kv); i += 2 {
		in.Params[kv[i].(string)] = kv[i+1].(int)
	}
	return in
}

func aclRedirects() map[string]string {
	const r = "github.com/gokrazy/rsync/rsyncd."
	return map[string]string{"net.SplitHostPort": r + "VSplitHostPort", "net.ParseIP": r + "VParseIP", "net.ParseCIDR": r + "VParseCIDR"}
}

func merge(a, b map[string]string) map[string]string {
	out := map[string]string{}
	for k, v := range a {
		out[k] = v
	}
	for k, v := range b {
		out[k] = v
	}
	return out
}

func symOnly(i Instance) Instance { i.SymOnly = true; return i }

func init() {
	reg(&Property{
		ID: "C20",
		Instances: func(tier string) []Instance {
			out := []Instance{
				symOnly(inst("internal/anonssh", "HSSH", "nkeys", -1, "k", 1)),
				symOnly(inst("internal/anonssh", "HSSH", "nkeys", 0, "k", 1)),
				symOnly(inst("internal/anonssh", "HSSH", "nkeys", 2, "k", 2)),
				symOnly(inst("internal/maincmd", "HSSHExec", "k", 2, "free0", 0)),
				symOnly(inst("internal/maincmd", "HSSHExec", "k", 3, "free0", 0)),
				symOnly(inst("internal/maincmd", "HSSHExec", "k", 3, "free0", 1)),
			}
			if tier == "thorough" {
				out = append(out, symOnly(inst("internal/anonssh", "HSSH", "nkeys", 3, "k", 3)), symOnly(inst("internal/maincmd", "HSSHExec", "k", 4, "free0", 0)))
			}
			return out
		},
		MustReach: []string{"admitted", "refused", "chan-rejected", "req-refused", "exec", "daemon"},
		Redirects: merge(merge(sym.VfsRedirects(), sym.SSHRedirects()), sym.SSHExecRedirects()),
		Bounds:    "keys: client key blob of 3 symbolic bytes against an anonymous listener or a set of 0..2 (thorough 3) symbolic blobs, through the real Serve and the PublicKeyCallback it installs; dispatch: one channel of symbolic type (session, direct-tcpip, x11, forwarded-tcpip) carrying k requests of symbolic type (exec, shell, subsystem, pty-req, env, x11-req); command lines: 'rsync' + k tokens from a 12-word vocabulary (--server --daemon --sender -r -e sh . /etc/ host:/x --gokr.modulemap=... --delete and a compact option cluster) through the function both SSH listeners install as their command callback and the real option parser",
		Outside:   "x/crypto/ssh (handshake, signature verification, channel multiplexing) and shlex are replaced by stand-ins: trusted; authorized_keys file parsing; command lines outside the vocabulary",
		Assumptions: []string{"x/crypto/ssh verifies that the client holds the private key for the blob it presents (trusted)"},
	})
	reg(&Property{
		ID: "C01",
		Instances: func(tier string) []Instance {
			var out []Instance
			maxN, maxM := 3, 2
			if tier == "thorough" {
				maxN, maxM = 4, 3 // n = 5 leaves solver queries undecided within 60 s
			}
			for m := -1; m <= maxM; m++ {
				for n := 0; n <= maxN; n++ {
					out = append(out, inst("rsyncd", "HEndToEnd", "n", n, "m", m))
				}
			}
			out = append(out, inst("internal/maincmd", "HPush"))
			// a request by index reaches the right file (top-level names; a subdirectory next to a sibling)
			out = append(out, inst("internal/sender", "HSenderNumbering"), inst("internal/sender", "HSenderNumberingDir"))
			// several files in one session; the real block size (700) with block-aligned files
			out = append(out, inst("internal/sender", "HDeltaTwoFiles", "n", 2, "m", 2, "b", 1))
			out = append(out, inst("internal/maincmd", "HClientPull", "n", 40000))
			out = append(out, inst("rsyncd", "HEndToEndBig", "m", 700, "pos", 0, "t", 0, "swap", 0))
			out = append(out, inst("rsyncd", "HEndToEndBig", "m", 700, "pos", -1, "t", 1, "swap", 0))
			out = append(out, inst("rsyncd", "HEndToEndBig", "m", 1400, "pos", -1, "t", 0, "swap", 1))
			if tier == "thorough" {
				out = append(out, inst("rsyncd", "HEndToEndBig", "m", 1400, "pos", 0, "t", 1, "swap", 0))
				out = append(out, inst("rsyncd", "HEndToEndBig", "m", 1401, "pos", 700, "t", 0, "swap", 0))
				out = append(out, inst("internal/sender", "HDeltaTwoFiles", "n", 3, "m", 2, "b", 2))
			}
			return out
		},
		MustReach: []string{"transferred", "skipped", "deleted", "kept", "delta-saved", "blockref", "pulled", "numbered"},
		Redirects: sym.VfsRedirects(),
		Bounds:    "per file: generator -> sender -> receiver composed on the real functions; source n bytes, prior destination absent (m=-1) or a regular file of m bytes, all contents, seeds, mtimes (int32) and -c -I -t -p symbolic; plus a push of a directory tree through the real client, option plumbing and receiving server (HPush)",
		Outside:   "files of 700 bytes and more (multi-block layouts are covered on the sender/receiver halves under C02), directory walking with several regular files in one session, the pull and local arrangements end to end, real sockets/pipes/processes",
	})
	reg(&Property{
		ID: "C05",
		Instances: func(tier string) []Instance {
			out := []Instance{
				inst("internal/receiver", "HConfine", "n", 1),
				inst("rsyncd", "HUploadSubdir", "n", 2),
				inst("rsyncd", "HUploadSubdir", "n", 3),
			}
			if tier == "thorough" {
				out = append(out, inst("internal/receiver", "HConfine", "n", 2), inst("rsyncd", "HUploadSubdir", "n", 4), inst("rsyncd", "HUploadSubdir", "n", 5))
			}
			return out
		},
		MustReach: []string{"done", "transferred"},
		Redirects: sym.VfsRedirects(),
		Bounds:    "hostile list: '.' plus one entry whose name is an arbitrary string of n bytes (every value, so '..', '/', '.', 'a/' ... at n<=2), any of the 7 types, arbitrary metadata and 2-byte link target, decoded by the real ReceiveFileList (incl. filepath.Clean) and then processed by delete pass, generator, receiver and touch-up under every subset of --delete -l -p -D(--devices/--specials) -t -o; daemon upload: arbitrary sub-directory argument of n bytes. Obligation: every file-system effect goes through the destination root handle (no ambient path call except MkdirAll/OpenRoot on the configured destination), descriptor-relative calls use a plain base name, no mutating event outside the destination in the model",
		Outside:   "confinement of path resolution below a root handle is os.Root's contract (Go standard library + kernel): trusted, modelled as 'names that escape are rejected'; symlinked directories inside the destination; Landlock",
		Assumptions: []string{"os.Root confines path resolution beneath its directory (trusted)"},
	})
	reg(&Property{
		ID: "C06",
		Instances: func(tier string) []Instance {
			out := []Instance{inst("rsyncd", "HDisclose", "n", 0, "abs", 0), inst("rsyncd", "HDisclose", "n", 1, "abs", 0), inst("rsyncd", "HDisclose", "n", 2, "abs", 0),
				inst("rsyncd", "HDisclose", "n", 0, "abs", 1), inst("rsyncd", "HDisclose", "n", 1, "abs", 1), inst("rsyncd", "HDisclose", "n", 3, "abs", 1)}
			if tier == "thorough" {
				out = append(out, inst("rsyncd", "HDisclose", "n", 3, "abs", 0), inst("rsyncd", "HDisclose", "n", 4, "abs", 0), inst("rsyncd", "HDisclose", "n", 4, "abs", 1))
			}
			return out
		},
		MustReach: []string{"done"},
		Redirects: sym.VfsRedirects(),
		Bounds:    "daemon text protocol, two directory modules whose names are prefixes of one another ('m', 'mm'), request path = module name + n arbitrary non-blank bytes ('/..', '/.', '//', ...), options -r, -l, -c symbolic; module tree with a file and a symlink pointing outside; obligation: every object the sender stats/opens/reads/lists lies inside the requested module's directory and the only ambient call is OpenRoot(module path)",
		Outside:   "os.Root / fs.ValidPath path confinement (trusted: escaping names are rejected by the model); fs.FS-backed modules (served from the caller's fs.FS, which the model does not look into); request tails longer than n bytes",
		Assumptions: []string{"os.Root confines path resolution beneath its directory (trusted)"},
	})
	reg(&Property{
		ID: "C07",
		Instances: func(tier string) []Instance {
			return []Instance{inst("rsyncd", "HReadOnly"), inst("rsyncd", "HValidateModule")}
		},
		MustReach: []string{"refused", "writable", "accepted", "rejected"},
		Redirects: sym.VfsRedirects(),
		Bounds:    "daemon text protocol end to end (greeting, module line, the argument lines a real client builds, empty upload): modules read-only directory / writable directory / fs.FS-backed, every subset of -r --delete -n -p -t, with and without a sub-directory target; obligation: not writable => no file-system event of any kind (not even MkdirAll/OpenRoot on the module path), error returned and an error frame naming the reason sent; NewServer rejects writable fs.FS modules",
		Outside:   "option sets beyond the listed flags; hostile (non-empty) uploads into a read-only module are refused before the file list is read, so their content does not matter",
	})
	reg(&Property{
		ID: "C19",
		Instances: func(tier string) []Instance {
			out := []Instance{inst("rsyncd", "HACL", "k", 0), inst("rsyncd", "HACL", "k", 1), inst("rsyncd", "HACL", "k", 2), inst("rsyncd", "HACLDaemon")}
			if tier == "thorough" {
				out = append(out, inst("rsyncd", "HACL", "k", 3))
			}
			return out
		},
		MustReach: []string{"granted", "refused", "daemon-refused", "daemon-admitted"},
		Redirects: merge(sym.VfsRedirects(), aclRedirects()),
		Bounds:    "rule lists of length 0..2 (thorough 3); per rule: allow | deny | unknown action | no space, and all | a network with symbolic family (v4/v6), symbolic address bytes and symbolic prefix length 0..32/0..128 | malformed network text; client address symbolic IPv4, IPv6 (not v4-mapped) or IPv4-mapped IPv6; the real (*net.IPNet).Contains / net.IP.To4 / net.CIDRMask are executed",
		Outside:   "the text parsers net.SplitHostPort / net.ParseIP / net.ParseCIDR are replaced by stubs with the stated contract in symbolic mode (native replays use the real parsers); rule lists longer than the bound",
	})
	reg(&Property{
		ID: "C02",
		Instances: func(tier string) []Instance {
			var out []Instance
			maxN, maxM, maxB := 3, 3, 2
			if tier == "thorough" {
				maxN, maxM, maxB = 4, 4, 3
			}
			for b := 1; b <= maxB; b++ {
				for m := 0; m <= maxM; m++ {
					for n := 1; n <= maxN; n++ {
						if b == 1 && m == 4 && n == 4 {
							continue // 15000 paths, 10 minutes; block length 1 adds nothing at this size
						}
						out = append(out, inst("internal/sender", "HDeltaSender", "n", n, "m", m, "b", b, "s2", 16))
					}
				}
			}
			if tier == "thorough" {
				// (5,5,2) did not finish within 40 minutes and is not registered
				for _, nm := range [][3]int{{5, 4, 2}, {5, 4, 3}} {
					out = append(out, inst("internal/sender", "HDeltaSender", "n", nm[0], "m", nm[1], "b", nm[2], "s2", 16))
				}
			}
			out = append(out, inst("internal/sender", "HDeltaTwoFiles", "n", 2, "m", 2, "b", 1))
			// the sender's read window on a file larger than 256 KiB (one request; thorough: two in sequence)
			out = append(out, func() Instance { i := inst("internal/sender", "HMapPtr", "size", 300000, "calls", 1, "grow", 0); i.MaxAlloc = 1 << 20; return i }())
			out = append(out, func() Instance { i := inst("internal/sender", "HMapPtr", "size", 300000, "calls", 2, "grow", 1); i.MaxAlloc = 1 << 20; return i }())
			if tier == "thorough" {
				out = append(out, func() Instance { i := inst("internal/sender", "HMapPtr", "size", 300000, "calls", 2, "grow", 0); i.MaxAlloc = 1 << 20; return i }())
				out = append(out, func() Instance { i := inst("internal/sender", "HMapPtr", "size", 600000, "calls", 1, "grow", 0); i.MaxAlloc = 1 << 20; return i }())
			}
			// block length 3 is the smallest with weak-checksum collisions; m=6 gives a duplicated block
			for _, nm := range [][2]int{{3, 3}, {3, 4}, {3, 6}, {4, 6}, {4, 4}} {
				out = append(out, inst("internal/sender", "HDeltaSender", "n", nm[0], "m", nm[1], "b", 3, "s2", 16))
			}
			if tier == "thorough" {
				// (5,7) and (6,9) did not finish within 30 minutes and are not registered
				for _, nm := range [][2]int{{6, 6}} {
					out = append(out, inst("internal/sender", "HDeltaSender", "n", nm[0], "m", nm[1], "b", 3, "s2", 16))
				}
				// short strong sums: collisions at the truncated length are assumed away (hashprefix)
				for _, nm := range [][2]int{{3, 3}, {4, 4}} {
					out = append(out, inst("internal/sender", "HDeltaSender", "n", nm[0], "m", nm[1], "b", 2, "s2", 2, "hashprefix", 2))
				}
			}
			ks := []int{1, 2}
			if tier == "thorough" {
				ks = []int{1, 2, 3, 4}
			}
			for _, k := range ks {
				for _, mb := range [][2]int{{0, 1}, {2, 1}, {3, 2}, {4, 2}, {5, 3}} {
					out = append(out, inst("internal/receiver", "HRecvScript", "m", mb[0], "b", mb[1], "k", k))
				}
			}
			return out
		},
		Redirects: sym.VfsRedirects(),
		MustReach: []string{"blockref", "literal", "end"},
		Bounds:    "sender: target length n and basis length m up to the tier's bound, block length b, all byte contents and seeds symbolic; read window (mapStruct.ptr) on a 300000-byte file: requests of 1, 700, 256Ki, 256Ki+701, 256Ki+1401 bytes at offsets around 0, 1024, 36000, 256Ki and the end of file (+-1), one request (thorough: two in sequence, and a 600000-byte file)",
		Outside:   "whole delta runs on files larger than the bound (the flush branch of hashSearch is not reached by a whole run), real block lengths 700..131072 in whole runs",
		Timeout:   30 * time.Minute,
	})
	reg(&Property{
		ID: "C03",
		Instances: func(tier string) []Instance {
			var out []Instance
			ks := []int{1, 2}
			ms := []int{-1, 0, 2}
			if tier == "thorough" {
				ks = []int{1, 2, 3}
				ms = []int{-1, 0, 1, 2, 3}
			}
			for _, m := range ms {
				for _, k := range ks {
					out = append(out, inst("internal/receiver", "HRecvArbitrary", "m", m, "k", k, "cut", -1))
				}
			}
			// a damaged file inside a multi-file session must fail the session (first or second file)
			out = append(out, inst("internal/receiver", "HAtomicSession", "cut", -1, "first", 1))
			out = append(out, inst("internal/receiver", "HAtomicSession", "cut", -1, "first", 0))
			return out
		},
		MustReach: []string{"commit", "commit-nonempty", "error", "damaged-first", "damaged"},
		Redirects: sym.VfsRedirects(),
		Bounds:    "adversarial data segment: symbolic header fields in -1..3, k tokens each a literal run of 1..2 symbolic bytes / a block reference 0..4 (valid or not) / a premature end marker, symbolic 16-byte trailer, symbolic basis of m bytes (m=-1: no basis file), symbolic seed",
		Outside:   "MD4 collisions (ideal-hash model); segments longer than the bound; declared sizes above 64 bytes",
		Assumptions: []string{"file-system operations go to the vfsx model (harness/internal/vfsx): rename is atomic, a pending file has a name that is not in the file list"},
	})
	reg(&Property{
		ID: "C04",
		Instances: func(tier string) []Instance {
			var out []Instance
			step := 3
			k := 1
			if tier == "thorough" {
				step = 1
				k = 2
			}
			for _, m := range []int{-1, 2} {
				for cut := 0; cut < 16+k*6+4+16; cut += step {
					out = append(out, inst("internal/receiver", "HRecvArbitrary", "m", m, "k", k, "cut", cut))
				}
				out = append(out, inst("internal/receiver", "HRecvArbitrary", "m", m, "k", k, "cut", -1))
			}
			// two-file session (replace + new file), stream cut or second file damaged; symlink replacement
			cuts := []int{-1, 10, 30, 50, 70}
			if tier == "thorough" {
				cuts = nil
				for c := -1; c < 95; c += 4 {
					cuts = append(cuts, c)
				}
			}
			for _, c := range cuts {
				out = append(out, inst("internal/receiver", "HAtomicSession", "cut", c, "first", 0))
			}
			out = append(out, inst("internal/receiver", "HAtomicSession", "cut", -1, "first", 1))
			out = append(out, inst("internal/receiver", "HAtomicSymlink"))
			return out
		},
		MustReach: []string{"commit", "error", "success", "damaged", "linked"},
		Redirects: sym.VfsRedirects(),
		Bounds:    "one regular file (new or replacing an m-byte file); stream as in C03 truncated at byte offset cut (quick: every 3rd offset; thorough: every offset, k=2); a two-file session (2-byte file replaced, 1-byte file created) cut at 5 offsets (thorough: every 4th) or with one bit of the second file's data or trailer flipped; replacement/creation of a symlink; invariant checked after every file-system event of the model",
		Outside:   "SIGKILL of a real process; atomicity of rename(2) and uniqueness of renameio's temp names are the model's contract",
		Assumptions: []string{"event-prefix form: the state after any prefix of the event log is what a crash at that point leaves behind"},
	})
	reg(&Property{
		ID: "C08",
		Instances: func(tier string) []Instance {
			small := func(i Instance) Instance { i.MaxAlloc = 8; return i }
			out := []Instance{
				small(inst("internal/sender", "HHostileRequests", "L", 8, "n", 2, "dry", 0)),
				small(inst("internal/sender", "HHostileRequests", "L", 28, "n", 2, "dry", 0)),
				small(inst("internal/sender", "HHostileRequests", "L", 28, "n", 0, "dry", 0)),
				small(inst("internal/sender", "HHostileRequests", "L", 12, "n", 1, "dry", 1)),
				small(inst("internal/receiver", "HHostileEntry", "L", 7, "last", 1)),
				small(inst("internal/receiver", "HHostileFlist", "L", 6)),
				small(inst("internal/receiver", "HHostileIdList", "L", 10)),
				small(inst("internal/receiver", "HHostileRecvFiles", "L", 8)),
				small(inst("internal/receiver", "HHostileRecvFiles", "L", 28)),
				small(inst("internal/rsyncwire", "HHostileMux", "L", 10)),
				inst("internal/rsyncwire", "HMuxBig", "delta", 1),
				inst("internal/rsyncwire", "HMuxBig", "delta", 4),
				inst("internal/rsyncwire", "HMuxBig", "delta", 0),
				inst("internal/rsyncopts", "HPeerArgs", "daemon", 0),
				inst("internal/rsyncopts", "HPeerArgs", "daemon", 1),
				small(inst("rsyncd", "HHostileDaemon", "mode", 0, "n", 10)),
				small(inst("rsyncd", "HHostileDaemon", "mode", 1, "n", 2)),
				small(inst("rsyncd", "HHostileDaemon", "mode", 2, "n", 2)),
				small(inst("internal/sender", "HHostileFilter", "L", 8, "nameLen", 1)),
			}
			if tier == "thorough" {
				out = append(out,
					small(inst("internal/sender", "HHostileFilter", "L", 9, "nameLen", 1)),
					small(inst("internal/sender", "HHostileRequests", "L", 32, "n", 3, "dry", 0)), // L=48 did not finish within 45 minutes
					small(inst("internal/receiver", "HHostileEntry", "L", 9, "last", 1)),
					small(inst("internal/receiver", "HHostileFlist", "L", 8)),
					small(inst("internal/receiver", "HHostileIdList", "L", 16)),
					small(inst("internal/receiver", "HHostileRecvFiles", "L", 36)),
					small(inst("internal/rsyncwire", "HHostileMux", "L", 14)),
					small(inst("rsyncd", "HHostileDaemon", "mode", 1, "n", 3)),
					small(inst("rsyncd", "HHostileDaemon", "mode", 2, "n", 3)),
				)
			}
			return out
		},
		MustReach: []string{"error", "ok"},
		Redirects: sym.VfsRedirects(),
		Bounds:    "each parser of peer bytes is fed an arbitrary byte string of the instance's length L (all 256^L values, including truncation = end of input anywhere); count-like fields are explored up to 8 after their sign check",
		Outside:   "declared sizes above 8 (quick) after the sign check; buffers longer than L; stalls and resource exhaustion; the client side of the daemon handshake (StartInbandExchange uses fmt.Sscanf, not modelled); argument lines: every option the parser tables know with a few argument shapes, and arbitrary lines of n bytes",
	})
	reg(&Property{
		ID: "C16",
		Instances: func(tier string) []Instance {
			out := []Instance{
				inst("internal/sender", "HDeltaComplete", "n", 2, "kb", 2, "b", 1, "s2", 16),
				inst("internal/sender", "HDeltaComplete", "n", 3, "kb", 1, "b", 2, "s2", 16),
				inst("internal/sender", "HDeltaComplete", "n", 4, "kb", 2, "b", 2, "s2", 16),
				inst("internal/sender", "HDeltaComplete", "n", 5, "kb", 1, "b", 3, "s2", 16),
				inst("internal/sender", "HDeltaEdit", "p", 1, "s", 0, "kb", 1, "b", 2, "c", 0),
				// short strong checksums (what other implementations send for small files)
				inst("internal/sender", "HDeltaComplete", "n", 3, "kb", 1, "b", 2, "s2", 2),
			}
			if tier == "thorough" {
				out = append(out,
					inst("internal/sender", "HDeltaComplete", "n", 3, "kb", 3, "b", 1, "s2", 16),
					inst("internal/sender", "HDeltaComplete", "n", 5, "kb", 2, "b", 2, "s2", 16),
					// (n=6,kb=2,b=3) did not finish within 35 minutes and is not registered
					inst("internal/sender", "HDeltaEdit", "p", 1, "s", 1, "kb", 2, "b", 2, "c", 0),
					inst("internal/sender", "HDeltaEdit", "p", 2, "s", 0, "kb", 1, "b", 3, "c", 0),
				)
			}
			return out
		},
		MustReach: []string{"identical", "match-found", "match-unaligned", "saved", "done"},
		Bounds:    "arbitrary basis of kb full blocks of length b and arbitrary target of n bytes (all byte values incl. >= 0x80, all seeds), full-length strong sums (one instance with 2-byte strong sums): identical file => zero literal bytes; at every byte offset o (symbolic) where the window equals a basis block and no earlier reference overlaps, a block reference starts at o; target = P+basis+S => literal bytes <= |P|+|S|",
		Outside:   "block lengths above 3, files above 6 bytes, real block sizes (700..131072) and the 256 KiB window",
	})
	reg(&Property{
		ID: "C17",
		Instances: func(tier string) []Instance {
			out := []Instance{}
			ks := []int{1, 2}
			if tier == "thorough" {
				ks = []int{1, 2, 3}
			}
			for _, k := range ks {
				out = append(out, inst("internal/rsyncwire", "HMuxReader", "k", k))
			}
			for _, d := range []int{-1, 0, 1, 4} {
				out = append(out, inst("internal/rsyncwire", "HMuxBig", "delta", d))
			}
			for _, n := range []int{1, 99, 100, 101, 128} {
				out = append(out, inst("internal/rsyncwire", "HMuxInfoRun", "n", n))
			}
			for _, l := range []int{0, 1, 3, 255, 256, 65535, 65536, 262144} {
				i := inst("internal/rsyncwire", "HMuxWriter", "len", l)
				i.MaxAlloc = 1 << 20
				out = append(out, i)
			}
			// the real sender behind the real MultiplexWriter: frames at the server's call sites
			frameSizes := []int{262144}
			if tier == "thorough" {
				frameSizes = []int{262144, 524288}
			}
			for _, sz := range frameSizes {
				for _, mode := range []int{0, 1} {
					i := inst("internal/sender", "HSendFrames", "size", sz, "mode", mode)
					i.MaxAlloc = 1 << 21
					if mode == 1 {
						i.MaxSteps = 400_000_000 // the search loop runs once per byte of the file
					}
					out = append(out, i)
				}
			}
			// the real client stack (ClientRun) on a frame larger than 32 KiB / at the frame limit
			out = append(out, inst("internal/maincmd", "HClientPull", "n", 40000))
			out = append(out, inst("internal/maincmd", "HClientPull", "n", 262140))
			return out
		},
		Redirects: sym.VfsRedirects(),
		MustReach: []string{"data", "eof", "errorframe", "unknowntag", "accepted", "rejected", "ok", "pulled", "done"},
		Bounds:    "reader: k frames, each with symbolic tag (data/info/error/unknown), length 0..3 and payload, consumed in chunks of symbolic size 1..4 through the real 256 KiB bufio.Reader; frames of maxMessageSize-1, maxMessageSize, maxMessageSize+1 behind 0..2 info frames; runs of up to 128 info frames; writer: payload 0..3 bytes and 255..262144 bytes (first/last byte symbolic), tags 0..2; server call sites: real SendFiles through the real MultiplexWriter for one file of 262140..262145 bytes (thorough: also 524284..524289), whole-file path and one-literal-run delta path, every frame <= 256 KiB and the de-framed stream well formed",
		Outside:   "more than k frames per stream; payload lengths between 4 and maxMessageSize-2 on the reader side; server call sites other than file-list and file data of one file",
	})
	reg(&Property{
		ID: "C09",
		Instances: func(tier string) []Instance {
			out := []Instance{
				inst("internal/receiver", "HDelete", "top", 1, "sub", 2),
				inst("internal/receiver", "HDelete", "top", 2, "sub", 1),
				inst("internal/receiver", "HDelete", "top", 3, "sub", 0),
				inst("internal/receiver", "HFindInList", "k", 2),
			}
			if tier == "thorough" {
				out = append(out, inst("internal/receiver", "HDelete", "top", 3, "sub", 1), inst("internal/receiver", "HDelete", "top", 2, "sub", 2), inst("internal/receiver", "HDelete", "top", 4, "sub", 0), inst("internal/receiver", "HFindInList", "k", 3))
			}
			return out
		},
		MustReach: []string{"deleted", "kept", "done", "member", "nonmember"},
		Redirects: sym.VfsRedirects(),
		Bounds:    "destination: up to `top` top-level entries (file or directory) with symbolic distinct one-letter names a..e, each directory with `sub` files with symbolic names; sender list = '.' + arbitrary subset + one name absent locally; dry-run and I/O-error flag symbolic; real io/fs.WalkDir over the model's fs.FS; findInFileList for all sorted lists of k names of 0..2 arbitrary bytes",
		Outside:   "deeper nesting; names longer than one letter in the tree harness; exclude-rule protection on the receiving side (not implemented by the project: see known findings)",
	})
	reg(&Property{
		ID: "C10",
		Instances: func(tier string) []Instance {
			out := []Instance{
				inst("internal/receiver", "HDryRun", "m", 1),
				inst("internal/sender", "HSenderDry", "k", 2),
			}
			if tier == "thorough" {
				out = append(out, inst("internal/receiver", "HDryRun", "m", 2), inst("internal/sender", "HSenderDry", "k", 3))
			}
			return out
		},
		MustReach: []string{"done", "ok"},
		Redirects: sym.VfsRedirects(),
		Bounds:    "one list entry of any type (7 valid types and invalid type bits), arbitrary permissions, mtime, ids, rdev, 1-byte link target; any prior object at that path (8 kinds, arbitrary metadata, m content bytes); one extraneous file; every other option bit symbolic (incl. --delete, -c, -I, preserve flags); delete pass + generator + receiver + directory touch-up; sender: k requests",
		Outside:   "trees with more than one listed entry; the directory being itself absent",
	})
	reg(&Property{
		ID: "C11",
		Instances: func(tier string) []Instance {
			out := []Instance{
				inst("internal/receiver", "HMetadata", "n", 1, "m", 1),
				inst("internal/sender", "HFlistEncode", "n", 1, "split", 1),
				inst("internal/receiver", "HFlistDecode", "k", 1, "opts", -1, "same", 0),
			}
			if tier == "thorough" {
				out = append(out, inst("internal/receiver", "HMetadata", "n", 2, "m", 2), inst("internal/sender", "HFlistEncode", "n", 3, "split", 1))
			}
			return out
		},
		MustReach: []string{"done", "transferred", "retouched", "kept-perms", "dir", "link", "device", "rdev", "target"},
		Redirects: sym.VfsRedirects(),
		Bounds:    "wire: one entry of any of the 7 types with symbolic permission bits, int32 mtime, 32-bit uid/gid/rdev, 1-byte link target (decoder: 2 arbitrary bytes), every subset of -l -o -g -D -c (devices and specials switched together), sender encoder -> reference decoder and reference encoder -> receiver decoder; destination: the same entry synchronised over any prior object (8 kinds, arbitrary metadata) under every subset of the preserve options, as root",
		Outside:   "effect of chmod/chown/utimes system calls (model); name-service lookups (always fail in the model: ids are kept numerically); --devices without --specials or vice versa (see C14); hard links",
	})
	reg(&Property{
		ID: "C12",
		Instances: func(tier string) []Instance {
			out := []Instance{
				inst("internal/receiver", "HUpdateRule", "m", 1, "secbits", 4),
				inst("internal/receiver", "HUpdateRule", "m", 0, "secbits", 0),
				inst("internal/receiver", "HUpdateRule", "m", 2, "secbits", 0),
				inst("internal/receiver", "HIdempotent", "n", 0),
				inst("internal/receiver", "HIdempotent", "n", 2),
				// the mtime the sender puts on the wire is the source mtime rounded down to whole seconds
				inst("internal/sender", "HFlistEncode", "n", 1, "split", 1),
			}
			if tier == "thorough" {
				out = append(out, inst("internal/receiver", "HUpdateRule", "m", 4, "secbits", 0), inst("internal/receiver", "HUpdateRule", "m", 1, "secbits", 8), inst("internal/receiver", "HIdempotent", "n", 5))
			}
			return out
		},
		MustReach: []string{"skip", "request", "noop"},
		Redirects: sym.VfsRedirects(),
		Bounds:    "sender: wire mtime of one entry with symbolic seconds (int32) and nanoseconds 0..999999999 equals the whole seconds; destination: absent | regular (m bytes, symbolic content, mtime seconds over int32, nanoseconds 0..999999999) | empty directory | symlink; list entry: 64-bit length, int32 mtime, 16-byte checksum, all symbolic; options -c -I -t -n -p symbolic; idempotence as one inductive step from the post-state of a successful transfer",
		Outside:   "destination mtimes outside the int32 range; time.Truncate(time.Second) is modelled as clearing the nanosecond field",
	})
	reg(&Property{
		ID: "C13",
		Instances: func(tier string) []Instance {
			out := []Instance{
				inst("internal/sender", "HFilterMatch", "k", 1, "long", 0),
				inst("internal/sender", "HFilterMatch", "k", 2, "long", 0),
				inst("internal/sender", "HFilterMatch", "k", 1, "long", 1),
				inst("internal/sender", "HFilterMatch", "k", 2, "long", 1),
				inst("internal/sender", "HFilterWalk", "n", 2, "k", 1),
				inst("internal/sender", "HFilterWalk", "n", 2, "k", 2),
				inst("internal/maincmd", "HClientSendFilter"),
				func() Instance { i := inst("internal/sender", "HHostileFilter", "L", 8, "nameLen", 1); i.MaxAlloc = 8; return i }(),
			}
			if tier == "thorough" {
				out = append(out, func() Instance { i := inst("internal/sender", "HHostileFilter", "L", 9, "nameLen", 1); i.MaxAlloc = 8; return i }())
				out = append(out, inst("internal/sender", "HFilterMatch", "k", 3, "long", 1), inst("internal/sender", "HFilterMatch", "k", 4, "long", 0), inst("internal/sender", "HFilterWalk", "n", 3, "k", 2))
			}
			for i := range out {
				if out[i].Fn == "HFilterWalk" {
					out[i].Params["long"] = 0
				}
			}
			return out
		},
		MustReach: []string{"excluded", "kept", "listed", "dropped", "norules", "error"},
		Redirects: sym.VfsRedirects(),
		Bounds:    "k rules sent through the real wire parser, each exclude or include with a symbolic one-letter pattern (a..d); names at top level or one level deep; walk: n top-level entries with symbolic distinct names, files or directories (a directory holds one child with a symbolic name), real io/fs.WalkDir; client-side sender (push/local) with a concrete exclude rule; rule syntax: arbitrary rule bytes (HHostileFilter) never panic",
		Outside:   "patterns longer than one letter or containing '/', deeper trees, -f/--include/--exclude option parsing (rule strings are given to the option struct directly), pull arrangement end to end (the rules travel as wire bytes, which is what HFilterMatch/HFilterWalk consume)",
	})
	reg(&Property{
		ID: "C14",
		Instances: func(tier string) []Instance {
			out := []Instance{
				inst("internal/rsyncopts", "HServerOptions", "split", 1, "delete", 1, "lite", 1),
				inst("internal/sender", "HFlistEncode", "n", 1, "split", 1),
				inst("internal/receiver", "HFlistDecode", "k", 1, "opts", -1, "same", 0),
				inst("internal/maincmd", "HPush"),
				inst("internal/rsyncopts", "HClientParse", "k", 2),
				func() Instance {
					i := symOnly(inst("rsyncd", "HServerMapping"))
					i.Redirects = map[string]string{"(*github.com/gokrazy/rsync/internal/receiver.Transfer).ReceiveFileList": "github.com/gokrazy/rsync/rsyncd.VCaptureFileList"}
					return i
				}(),
				func() Instance {
					i := symOnly(inst("internal/maincmd", "HClientMapping"))
					i.Redirects = map[string]string{"(*github.com/gokrazy/rsync/internal/receiver.Transfer).ReceiveFileList": "github.com/gokrazy/rsync/internal/maincmd.VCaptureFileList"}
					return i
				}(),
			}
			if tier == "thorough" {
				out = append(out, inst("internal/rsyncopts", "HClientParse", "k", 3), inst("internal/rsyncopts", "HServerOptions", "split", 1, "delete", 1, "lite", 0))
			}
			return out
		},
		MustReach: []string{"done", "args", "deleted", "kept", "rdev", "target", "mapped"},
		Redirects: sym.VfsRedirects(),
		Bounds:    "option agreement: every subset of -n -l -o -g --devices --specials -t -p -r -c -I -u --delete in both directions: client ServerOptions() -> real server-side ParseArguments; stream agreement: sender encoder and receiver decoder each against the protocol-27 reference codec under every subset of the options that add fields; push end to end (client-side sender -> receiving server started with the client's arguments) for every subset of -p -t -l -o -g -D -c --delete and an exclude rule, on a tree of directories",
		Outside:   "command lines of more than 2 (thorough 3) option tokens from the 29-spelling vocabulary (-a, -D, --no-* forms, --exclude/--include/-f); pull and local arrangements end to end; sessions that transfer file data (covered per file by C01/C02)",
	})
	reg(&Property{
		ID: "C15",
		Instances: func(tier string) []Instance {
			out := []Instance{
				inst("internal/rsyncwire", "HInt64RoundTrip"),
				inst("internal/receiver", "HFlistDecode", "k", 1, "opts", -1, "same", 0),
				inst("internal/receiver", "HFlistDecode", "k", 2, "opts", 31, "same", 31),
				inst("internal/receiver", "HFlistDecode", "k", 2, "opts", 4, "same", 16),
				inst("internal/receiver", "HFlistDecode", "k", 2, "opts", 0, "same", 0),
				inst("internal/sender", "HFlistEncode", "n", 1, "split", 1),
				inst("internal/sender", "HSenderNumbering"),
				inst("internal/sender", "HSenderNumberingDir"),
				func() Instance { i := inst("internal/sender", "HIdLists", "namesvc", 1); i.SymOnly = true; return i }(),
			}
			if tier == "thorough" {
				out = append(out,
					inst("internal/receiver", "HFlistDecode", "k", 2, "opts", 31, "same", 0),
					inst("internal/receiver", "HFlistDecode", "k", 2, "opts", 0, "same", 3),
					inst("internal/receiver", "HFlistDecode", "k", 2, "opts", 21, "same", 21),
					inst("internal/receiver", "HFlistDecode", "k", 2, "opts", 10, "same", 10),
					inst("internal/receiver", "HFlistDecode", "k", 3, "opts", 4, "same", 16),
				)
			}
			return out
		},
		Redirects: sym.VfsRedirects(),
		MustReach: []string{"short", "long", "done", "samename", "rdev", "target", "numbered", "uidlist", "gidlist"},
		Bounds:    "id lists: one file with symbolic uid and gid, -o/-g symbolic, name service stand-in in which every id resolves (symbolic mode only, no native replay); integers: all 64-bit values. decoder: lists of k entries built by an independent protocol-27 reference encoder; all field values symbolic (64-bit lengths incl. the 12-byte form, int32 mtime/uid/gid/rdev, all 7 types, all permission bits, names of 1..k bytes incl. bytes >= 0x80 with symbolic shared-prefix compression), option sets and 'same as previous' flag masks per instance (k=1: every option subset)",
		Outside:   "lists longer than k; names containing '/' or '.' (name sanitising is C05's subject); duplicate names; not every combination of option subset x same-flag mask for k >= 2 (the listed masks)",
	})
}
