// check: decide one property by symbolic execution of /repo's current source.
//
//	check <ID> [--tier quick|thorough] [--replay file]
package main

import (
	"encoding/json"
	"flag"
	"fmt"
	"os"
	"os/exec"
	"path/filepath"
	"sort"
	"strconv"
	"strings"
	"time"

	"golang.org/x/tools/go/ssa"
	"verif/symgo/sym"
)

const (
	repoDir  = "/repo"
	verifDir = "/verif"
	modPath  = "github.com/gokrazy/rsync/"
)

// Instance is one harness run with concrete shape parameters.
type Instance struct {
	Pkg     string // package dir relative to the repo
	Fn      string
	Params  map[string]int
	MaxAlloc int64
	MaxSteps int // per-path step budget (unwinding check); 0 = engine default (20 million)
	Redirects map[string]string // extra redirects for this instance only
	SymOnly  bool // depends on stand-ins that exist only under symbolic execution: no native replay / validation
}

func (i Instance) String() string {
	var ks []string
	for k := range i.Params {
		ks = append(ks, k)
	}
	sort.Strings(ks)
	var ps []string
	for _, k := range ks {
		ps = append(ps, fmt.Sprintf("%s=%d", k, i.Params[k]))
	}
	return i.Pkg + ":" + i.Fn + "{" + strings.Join(ps, ",") + "}"
}

// Property describes what is run and claimed for one property id.
type Property struct {
	ID          string
	Instances   func(tier string) []Instance
	MustReach   []string // labels that must be reached by some path (non-vacuity witnesses)
	Bounds      string
	Outside     string
	Assumptions []string
	Redirects   map[string]string
	Timeout     time.Duration
}

type knownFinding struct {
	Property string `json:"property"`
	Fn       string `json:"fn"`       // substring of the function in which the obligation failed
	Harness  string `json:"harness"`  // substring of the harness name ("" = any)
	Msg      string `json:"msg"`      // substring of the obligation message
	What     string `json:"what"`     // human description printed with KNOWN-FINDING
	Status   string `json:"status"`   // "known" | "fixed"
	Commit   string `json:"commit,omitempty"`
}

type replayFile struct {
	Harness string         `json:"harness"`
	Pkg     string         `json:"pkg"`
	Params  map[string]int `json:"params"`
	Inputs  []uint64       `json:"inputs"`
	Kind    string         `json:"kind,omitempty"`
	Msg     string         `json:"msg,omitempty"`
	Pos     string         `json:"pos,omitempty"`
	Fn      string         `json:"fn,omitempty"`
}

func main() {
	tier := flag.String("tier", os.Getenv("VERIF_TIER"), "quick|thorough")
	replay := flag.String("replay", "", "replay a counterexample file natively")
	workers := flag.Int("j", 16, "workers")
	only := flag.String("only", "", "only run instances whose name contains this")
	noreplay := flag.Bool("noreplay", false, "do not replay counterexamples natively")
	flag.Usage = func() { fmt.Println("usage: check [flags] <property-id>") }
	// allow flags after the id
	var id string
	args := os.Args[1:]
	var fl []string
	for _, a := range args {
		if !strings.HasPrefix(a, "-") && id == "" && (len(fl) == 0 || !needsValue(fl[len(fl)-1])) {
			id = a
			continue
		}
		fl = append(fl, a)
	}
	flag.CommandLine.Parse(fl)
	if *tier == "" {
		*tier = "quick"
	}
	if *replay != "" {
		os.Exit(doReplay(*replay))
	}
	p, ok := properties[id]
	if !ok {
		fmt.Println("unknown property", id)
		os.Exit(2)
	}
	seed := 0
	if s := os.Getenv("VERIF_SEED"); s != "" {
		seed, _ = strconv.Atoi(s)
	}
	os.Exit(runProperty(p, *tier, seed, *workers, *only, *noreplay))
}

func needsValue(f string) bool {
	f = strings.TrimLeft(f, "-")
	if strings.Contains(f, "=") {
		return false
	}
	switch f {
	case "tier", "replay", "j", "only":
		return true
	}
	return false
}

func loadKnown() []knownFinding {
	var k []knownFinding
	b, err := os.ReadFile(filepath.Join(verifDir, "known_findings.json"))
	if err != nil {
		return nil
	}
	if err := json.Unmarshal(b, &k); err != nil {
		fmt.Println("known_findings.json:", err)
		os.Exit(2)
	}
	return k
}

func matchKnown(k []knownFinding, id string, inst Instance, v sym.Violation) *knownFinding {
	for i := range k {
		f := &k[i]
		if f.Property != id || f.Status == "fixed" {
			continue
		}
		if f.Harness != "" && !strings.Contains(inst.Fn, f.Harness) {
			continue
		}
		if !strings.Contains(v.Fn, f.Fn) {
			continue
		}
		if !strings.Contains(v.Msg, f.Msg) {
			continue
		}
		return f
	}
	return nil
}

type instResult struct {
	Inst Instance
	Sum  *sym.Summary
}

func runProperty(p *Property, tier string, seed, workers int, only string, noreplay bool) int {
	start := time.Now()
	hp, err := sym.HarnessPackages(filepath.Join(verifDir, "harness"))
	if err != nil {
		fmt.Println("harness:", err)
		return 2
	}
	overlay, err := sym.HarnessOverlay(repoDir, filepath.Join(verifDir, "harness"), hp, false)
	if err != nil {
		fmt.Println("overlay:", err)
		return 2
	}
	insts := p.Instances(tier)
	// load only the packages this property's harnesses live in (plus helper packages)
	need := map[string]bool{"internal/rsyncopts": true}
	for _, in := range insts {
		need[in.Pkg] = true
	}
	var pats []string
	for _, h := range hp {
		if need[h] {
			pats = append(pats, "./"+h)
		}
	}
	tLoad := time.Now()
	eng, err := sym.Load(repoDir, pats, overlay, "")
	if err != nil {
		fmt.Println("load:", err)
		return 2
	}
	loadTime := time.Since(tLoad)
	eng.TimeoutMs = 30000
	if tier == "thorough" {
		eng.TimeoutMs = 60000
	}
	// VERIF_SEED only permutes the order of instances (the set decided is the same).
	if seed != 0 {
		r := uint64(seed)*6364136223846793005 + 1442695040888963407
		for i := len(insts) - 1; i > 0; i-- {
			r = r*6364136223846793005 + 1442695040888963407
			j := int((r >> 33) % uint64(i+1))
			insts[i], insts[j] = insts[j], insts[i]
		}
	}
	known := loadKnown()
	var results []instResult
	var skipped []string
	reached := map[string]int{}
	var engineErrs []string
	type vrec struct {
		inst Instance
		v    sym.Violation
	}
	var viols []vrec
	total := &sym.Summary{Ends: map[string]int{}, Truncated: map[string]int{}, Fns: map[string]int{}}
	stopAll := false
	for _, in := range insts {
		if only != "" && !strings.Contains(in.String(), only) {
			continue
		}
		if stopAll {
			// a reportable violation was already found: the remaining instances are not needed
			// for the verdict (and tend to be slow on a tree that violates the property)
			skipped = append(skipped, in.String())
			continue
		}
		h := eng.FindFunc(modPath + in.Pkg + "." + in.Fn)
		if h == nil {
			fmt.Printf("harness %s not found\n", in)
			return 2
		}
		eng.Params = in.Params
		eng.MaxAlloc = 64
		if in.MaxAlloc > 0 {
			eng.MaxAlloc = in.MaxAlloc
		}
		eng.MaxSteps = 20_000_000
		if in.MaxSteps > 0 {
			eng.MaxSteps = in.MaxSteps
		}
		eng.SetRedirects(p.Redirects, in.Redirects)
		inCopy := in
		eng.StopOn = func(v sym.Violation) bool { return matchKnown(known, p.ID, inCopy, v) == nil }
		budget := 20 * time.Minute
		if tier == "thorough" {
			budget = 60 * time.Minute
		}
		eng.Deadline = time.Now().Add(budget)
		sum := eng.Run(h, workers)
		results = append(results, instResult{in, sum})
		fmt.Printf("  %-60s paths=%d steps=%d queries=%d unknown=%d viol=%d wall=%.1fs\n", in, sum.Paths, sum.Steps, sum.Queries, sum.QUnknown, len(sum.Violations), sum.Wall.Seconds())
		if sum.EngineError != "" {
			engineErrs = append(engineErrs, in.String()+": "+sum.EngineError)
		}
		for k, n := range sum.Reached {
			reached[k] += n
		}
		for _, v := range sum.Violations {
			viols = append(viols, vrec{in, v})
			if matchKnown(known, p.ID, in, v) == nil {
				stopAll = true
			}
		}
		total.Paths += sum.Paths
		total.Steps += sum.Steps
		total.Queries += sum.Queries
		total.QSat += sum.QSat
		total.QUnsat += sum.QUnsat
		total.QUnknown += sum.QUnknown
		total.SolverTime += sum.SolverTime
		total.Unknowns += sum.Unknowns
		for k, n := range sum.Ends {
			total.Ends[k] += n
		}
		for k, n := range sum.Truncated {
			total.Truncated[k] += n
		}
		for k, n := range sum.Fns {
			total.Fns[k] += n
		}
		total.Samples = append(total.Samples, sum.Samples...)
	}

	// cross-solver diff (thorough tier): the cheapest instance is explored again with z3 5.x;
	// the two explorations must agree on the number of paths, their ends and the violations.
	crossDiff := "not run (quick tier)"
	if tier == "thorough" && len(results) > 0 && !stopAll {
		best := 0
		for i, r := range results {
			if r.Sum.Wall < results[best].Sum.Wall && r.Sum.Paths > 1 {
				best = i
			}
		}
		in := results[best].Inst
		if _, err := exec.LookPath("z3-new"); err == nil {
			h := eng.FindFunc(modPath + in.Pkg + "." + in.Fn)
			eng.Params = in.Params
			eng.MaxAlloc = 64
			if in.MaxAlloc > 0 {
				eng.MaxAlloc = in.MaxAlloc
			}
			eng.MaxSteps = 20_000_000
			if in.MaxSteps > 0 {
				eng.MaxSteps = in.MaxSteps
			}
			eng.SetRedirects(p.Redirects, in.Redirects)
			eng.StopOn = nil
			eng.Deadline = time.Now().Add(30 * time.Minute)
			old := eng.SolverBin
			eng.SolverBin = "z3-new"
			alt := eng.Run(h, workers)
			eng.SolverBin = old
			a, b := results[best].Sum, alt
			if alt.EngineError != "" {
				crossDiff = fmt.Sprintf("%s: z3-new run failed: %s", in, alt.EngineError)
			} else if a.Paths != b.Paths || len(a.Violations) != len(b.Violations) || a.Ends["return"] != b.Ends["return"] {
				crossDiff = fmt.Sprintf("DISAGREEMENT on %s: z3 4.8.12 paths=%d viol=%d, z3-new paths=%d viol=%d", in, a.Paths, len(a.Violations), b.Paths, len(b.Violations))
				fmt.Println("SOLVER-DISAGREEMENT", crossDiff)
				engineErrs = append(engineErrs, crossDiff)
			} else {
				crossDiff = fmt.Sprintf("%s: z3 4.8.12 and z3-new agree (paths=%d, returns=%d, violations=%d; z3-new %d queries, %.1fs)", in, b.Paths, b.Ends["return"], len(b.Violations), b.Queries, b.SolverTime.Seconds())
			}
		} else {
			crossDiff = "z3-new not found"
		}
	}

	exit := 0
	// engine errors: inconclusive, never success
	for _, e := range engineErrs {
		fmt.Println("ENGINE-ERROR", e)
		exit = 2
	}
	if total.QUnknown > 0 || total.Unknowns > 0 {
		fmt.Printf("INCONCLUSIVE: %d solver queries returned unknown/timeout\n", total.QUnknown)
		exit = 2
	}
	for _, lbl := range p.MustReach {
		if reached[lbl] == 0 && only == "" && !stopAll {
			fmt.Printf("VACUOUS: reachability witness %q was never reached\n", lbl)
			exit = 2
		}
	}
	if total.Ends["budget"] > 0 {
		fmt.Printf("INCONCLUSIVE: %d paths hit the step budget (unwinding check failed)\n", total.Ends["budget"])
		exit = 2
	}

	// violations: group by (fn,pos,msg), replay the first witness of each group
	outDir := filepath.Join(verifDir, "out", p.ID)
	os.RemoveAll(outDir)
	os.MkdirAll(outDir, 0o755)
	groups := map[string][]vrec{}
	var order []string
	for _, vr := range viols {
		k := vr.v.Fn + "|" + vr.v.Pos + "|" + vr.v.Msg
		if _, ok := groups[k]; !ok {
			order = append(order, k)
		}
		groups[k] = append(groups[k], vr)
	}
	nViol := 0
	knownSeen := map[string]bool{}
	var sampleViol []map[string]any
	for gi, k := range order {
		vr := groups[k][0]
		rf := replayFile{Harness: vr.inst.Fn, Pkg: vr.inst.Pkg, Params: vr.inst.Params, Inputs: vr.v.Inputs, Kind: vr.v.Kind, Msg: vr.v.Msg, Pos: vr.v.Pos, Fn: vr.v.Fn}
		path := filepath.Join(outDir, fmt.Sprintf("cex-%d.json", gi))
		b, _ := json.MarshalIndent(rf, "", " ")
		os.WriteFile(path, b, 0o644)
		if kf := matchKnown(known, p.ID, vr.inst, vr.v); kf != nil {
			if !knownSeen[kf.What] {
				knownSeen[kf.What] = true
				fmt.Printf("KNOWN-FINDING: property=%s %s\n", p.ID, kf.What)
			}
			continue
		}
		confirmed := "skipped"
		if vr.inst.SymOnly {
			confirmed = "not applicable (harness uses library stand-ins that exist only in the model)"
		}
		if !noreplay && !vr.inst.SymOnly {
			ok, out := nativeReplay(path, vr.inst.Pkg)
			if ok {
				confirmed = "reproduced"
			} else {
				confirmed = "not-reproduced"
				os.WriteFile(path+".replay.log", []byte(out), 0o644)
			}
		}
		nViol++
		fmt.Printf("VIOLATION property=%s replay=%s\n", p.ID, path)
		fmt.Printf("  %s: %s at %s in %s [%s; %d witnesses; native replay: %s]\n", vr.v.Kind, vr.v.Msg, vr.v.Pos, vr.v.Fn, vr.inst, len(groups[k]), confirmed)
		if len(sampleViol) < 5 {
			sampleViol = append(sampleViol, map[string]any{"kind": vr.v.Kind, "msg": vr.v.Msg, "pos": vr.v.Pos, "instance": vr.inst.String(), "inputs": vr.v.Inputs, "replay": confirmed})
		}
	}
	if nViol > 0 {
		exit = 1
	}

	// evidence
	var samples []any
	for i, r := range results {
		if i >= 6 {
			break
		}
		samples = append(samples, map[string]any{
			"instance": r.Inst.String(), "paths": r.Sum.Paths, "path_ends": r.Sum.Ends, "ssa_instructions": r.Sum.Steps,
			"queries": r.Sum.Queries, "violations": len(r.Sum.Violations), "reached": r.Sum.Reached, "wall_s": r.Sum.Wall.Seconds(),
		})
	}
	for _, s := range total.Samples {
		if len(samples) < 12 {
			samples = append(samples, s)
		}
	}
	for _, s := range sampleViol {
		samples = append(samples, s)
	}
	type fnc struct {
		Name  string `json:"name"`
		Calls int    `json:"calls"`
	}
	var fns []fnc
	for n, c := range total.Fns {
		fns = append(fns, fnc{n, c})
	}
	sort.Slice(fns, func(i, j int) bool { return fns[i].Calls > fns[j].Calls })
	var repoFns, libFns []fnc
	for _, f := range fns {
		if strings.Contains(f.Name, "gokrazy/rsync") && !strings.Contains(f.Name, ".H") && !strings.Contains(f.Name, "zz_verif") {
			repoFns = append(repoFns, f)
		} else {
			libFns = append(libFns, f)
		}
	}
	if len(libFns) > 40 {
		libFns = libFns[:40]
	}
	validated := 0
	if exit == 0 && !noreplay && only == "" {
		validated = translatorValidation(eng, p, insts, tier, seed)
		if validated < 0 {
			fmt.Println("ENCODING-MISMATCH: concrete-mode executor and native build disagree (see out dir)")
			exit = 2
			validated = 0
		}
	}
	var instNames []string
	for _, r := range results {
		instNames = append(instNames, r.Inst.String())
	}
	truncated := map[string]int{}
	for k, v := range total.Truncated {
		truncated[k] = v
	}
	ev := map[string]any{
		"property_id": p.ID,
		"tier":        tier,
		"seed":        seed,
		"level":       "model_checking",
		"coverage": map[string]any{
			"states":                        max(total.Paths, 0),
			"transitions":                   total.Steps,
			"traces_validated_against_impl": validated,
			"samples":                       samples,
			"exhaustive":                    false,
			"rule":                          "states = feasible path ends of the symbolic execution of the real SSA (each path stands for all inputs satisfying its path condition); transitions = SSA instructions executed symbolically",
			"instances":                     instNames,
			"path_ends":                     total.Ends,
			"reachability_witnesses":        reached,
			"functions_encoded_repo":        repoFns,
			"functions_encoded_lib_top40":   libFns,
			"bounds":                        p.Bounds,
			"outside_the_claim":             p.Outside,
			"cut_paths_outside_bound":       truncated,
			"queries":                       map[string]int{"total": total.Queries, "sat": total.QSat, "unsat": total.QUnsat, "unknown": total.QUnknown},
			"solver_time_s":                 total.SolverTime.Seconds(),
			"solver":                        solverVersion(),
			"load_and_ssa_build_s":          loadTime.Seconds(),
			"engine_errors":                 engineErrs,
			"cross_solver_diff":             crossDiff,
			"instances_skipped_after_violation": skipped,
			"known_findings_seen":           keys(knownSeen),
		},
		"assumptions": append([]string{
			"bounded: see coverage.bounds; nothing is claimed outside those bounds",
			"goroutines are sequentialised; no claim about schedules",
			"MD4 is modelled as an ideal hash (functional, collision-free on 128 bits)",
			"logging/progress output has empty bodies; fmt formatting of symbolic integers is opaque",
			"stdlib executed from go1.26.8 SSA; replays use the repository's own toolchain",
		}, p.Assumptions...),
		"wall_s":     time.Since(start).Seconds(),
		"violations": nViol,
	}
	os.MkdirAll(filepath.Join(verifDir, "evidence"), 0o755)
	b, _ := json.MarshalIndent(ev, "", " ")
	if err := os.WriteFile(filepath.Join(verifDir, "evidence", p.ID+".json"), b, 0o644); err != nil {
		fmt.Println("evidence:", err)
		return 2
	}
	fmt.Printf("%s tier=%s instances=%d paths=%d steps=%d queries=%d (unknown %d) solver=%.1fs wall=%.1fs exit=%d\n",
		p.ID, tier, len(results), total.Paths, total.Steps, total.Queries, total.QUnknown, total.SolverTime.Seconds(), time.Since(start).Seconds(), exit)
	return exit
}

func keys(m map[string]bool) []string {
	var out []string
	for k := range m {
		out = append(out, k)
	}
	sort.Strings(out)
	return out
}

func solverVersion() string {
	out, _ := exec.Command("z3", "--version").Output()
	return strings.TrimSpace(string(out))
}

// --- native replay ---

// writeNativeOverlay materialises the native-flavour harness files in a temp dir and
// returns the overlay JSON path (to be removed by the caller via the returned cleanup).
func writeNativeOverlay() (string, func(), error) {
	hp, err := sym.HarnessPackages(filepath.Join(verifDir, "harness"))
	if err != nil {
		return "", nil, err
	}
	ov, err := sym.HarnessOverlay(repoDir, filepath.Join(verifDir, "harness"), hp, true)
	if err != nil {
		return "", nil, err
	}
	tmp, err := os.MkdirTemp("", "verif-replay-")
	if err != nil {
		return "", nil, err
	}
	repl := map[string]string{}
	i := 0
	for virt, content := range ov {
		real := filepath.Join(tmp, fmt.Sprintf("f%d_%s", i, filepath.Base(virt)))
		i++
		if err := os.WriteFile(real, content, 0o644); err != nil {
			return "", nil, err
		}
		repl[virt] = real
	}
	b, _ := json.Marshal(map[string]any{"Replace": repl})
	ovPath := filepath.Join(tmp, "overlay.json")
	os.WriteFile(ovPath, b, 0o644)
	return ovPath, func() { os.RemoveAll(tmp) }, nil
}

func goTestNative(ovPath, pkg, replayPath string) (string, error) {
	if abs, err := filepath.Abs(replayPath); err == nil {
		replayPath = abs
	}
	cmd := exec.Command("go", "test", "-vet=off", "-count=1", "-overlay", ovPath, "-run", "^TestVerifReplay$", "-v", "./"+pkg)
	cmd.Dir = repoDir
	env := []string{}
	for _, e := range os.Environ() {
		// the repository's own toolchain (go.mod's go line) must be used for replays
		if strings.HasPrefix(e, "GOTOOLCHAIN=") || strings.HasPrefix(e, "GOFLAGS=") || strings.HasPrefix(e, "PATH=") {
			continue
		}
		env = append(env, e)
	}
	path := os.Getenv("PATH")
	path = strings.ReplaceAll(path, "/opt/veriftools/go1.26.8/bin:", "")
	env = append(env, "PATH="+path, "VERIF_REPLAY="+replayPath, "GOFLAGS=-mod=mod", "GOPROXY=off")
	cmd.Env = env
	out, err := cmd.CombinedOutput()
	return string(out), err
}

func nativeReplay(path, pkg string) (bool, string) {
	ov, cleanup, err := writeNativeOverlay()
	if err != nil {
		return false, err.Error()
	}
	defer cleanup()
	out, _ := goTestNative(ov, pkg, path)
	return strings.Contains(out, "VERIF-REPLAY: FAIL"), out
}

func doReplay(path string) int {
	b, err := os.ReadFile(path)
	if err != nil {
		fmt.Println(err)
		return 2
	}
	var rf replayFile
	if err := json.Unmarshal(b, &rf); err != nil {
		fmt.Println(err)
		return 2
	}
	ok, out := nativeReplay(path, rf.Pkg)
	fmt.Println(out)
	if ok {
		fmt.Println("reproduced")
		return 1
	}
	fmt.Println("not reproduced")
	return 0
}

// --- translator validation: concrete-mode executor vs native build on the same vectors ---

type batchFile struct {
	Cases []replayFile `json:"cases"`
}

func translatorValidation(eng *sym.Engine, p *Property, insts []Instance, tier string, seed int) int {
	perInst := 2
	maxCases := 32
	if tier == "thorough" {
		perInst = 8
		maxCases = 512
	}
	r := uint64(seed)*2862933555777941757 + 3037000493
	next := func() uint64 {
		r = r*6364136223846793005 + 1442695040888963407
		return r >> 24
	}
	byPkg := map[string][]replayFile{}
	type key struct {
		pkg string
		idx int
	}
	symRes := map[key]string{}
	n := 0
	for _, in := range insts {
		if in.SymOnly {
			continue
		}
		for k := 0; k < perInst && n < maxCases; k++ {
			inputs := make([]uint64, 96)
			for i := range inputs {
				v := next()
				switch v % 4 {
				case 0:
					inputs[i] = v >> 8 % 4 // small values
				case 1:
					inputs[i] = (v >> 8) & 0xff
				default:
					inputs[i] = v >> 8
				}
			}
			h := eng.FindFunc(modPath + in.Pkg + "." + in.Fn)
			eng.Params = in.Params
			eng.MaxAlloc = 1 << 20
			eng.MaxSteps = 20_000_000
			if in.MaxSteps > 0 {
				eng.MaxSteps = in.MaxSteps
			}
			eng.SetRedirects(p.Redirects, in.Redirects)
			res, eerr := eng.RunConcrete(h, inputs)
			if eerr != "" {
				fmt.Println("  concrete-mode engine error:", eerr)
				return -1
			}
			verdict := "PASS"
			if res.End == "assume" {
				verdict = "ASSUME"
			} else if len(res.Violations) > 0 {
				verdict = "FAIL"
			}
			idx := len(byPkg[in.Pkg])
			byPkg[in.Pkg] = append(byPkg[in.Pkg], replayFile{Harness: in.Fn, Pkg: in.Pkg, Params: in.Params, Inputs: inputs})
			symRes[key{in.Pkg, idx}] = verdict
			n++
		}
	}
	ov, cleanup, err := writeNativeOverlay()
	if err != nil {
		fmt.Println(err)
		return -1
	}
	defer cleanup()
	validated := 0
	for pkg, cases := range byPkg {
		bf := filepath.Join(filepath.Dir(ov), "batch-"+strings.ReplaceAll(pkg, "/", "_")+".json")
		b, _ := json.Marshal(batchFile{Cases: cases})
		os.WriteFile(bf, b, 0o644)
		// The native side runs real goroutines (generator/receiver) and a real file system; a
		// disagreement must be reproducible to count (up to three native runs per batch).
		var out string
		got := map[int]string{}
		for attempt := 0; attempt < 3; attempt++ {
			out, _ = goTestNative(ov, pkg, bf)
			got = map[int]string{}
			for _, line := range strings.Split(out, "\n") {
				var i int
				var v string
				if n, _ := fmt.Sscanf(line, "VERIF-CASE %d %s", &i, &v); n == 2 {
					got[i] = v
				}
			}
			agree := true
			for i := range cases {
				if got[i] != symRes[key{pkg, i}] {
					agree = false
				}
			}
			if agree {
				break
			}
		}
		for i := range cases {
			want := symRes[key{pkg, i}]
			if got[i] != want {
				fmt.Printf("  translator validation mismatch: %s case %d: executor=%s native=%q\n", pkg, i, want, got[i])
				os.WriteFile(filepath.Join(verifDir, "out", p.ID, "mismatch.log"), []byte(out), 0o644)
				cb, _ := json.Marshal(cases[i])
				os.WriteFile(filepath.Join(verifDir, "out", p.ID, "mismatch-case.json"), cb, 0o644)
				return -1
			}
			validated++
		}
	}
	return validated
}

var _ = ssa.NaiveForm
