package sym

import (
	"fmt"
	"go/types"
	"math"
	"strconv"
	"strings"

	"github.com/mmcloughlin/md4"
	"golang.org/x/tools/go/ssa"
)

func typesNewPointer(t types.Type) types.Type { return types.NewPointer(t) }

// harnessIntrinsics are bodiless functions declared in harness files.
var harnessIntrinsics = map[string]Intrinsic{}

// intrinsics replace library functions by models (keyed by ssa.Function.String()).
var intrinsics = map[string]Intrinsic{}

func nop(ex *Exec, fn *ssa.Function, args []Value) Value { return ex.zeroResults(fn) }

func init() {
	h := harnessIntrinsics
	nd := func(kind string, w int) Intrinsic {
		return func(ex *Exec, fn *ssa.Function, args []Value) Value { return ex.fresh(kind, w) }
	}
	h["nd_bool"] = func(ex *Exec, fn *ssa.Function, args []Value) Value {
		t := ex.fresh("b", 1)
		return ex.st.Eq(t, ex.st.Const(1, 1))
	}
	h["nd_u8"] = nd("u8", 8)
	h["nd_i8"] = nd("i8", 8)
	h["nd_u16"] = nd("u16", 16)
	h["nd_i16"] = nd("i16", 16)
	h["nd_u32"] = nd("u32", 32)
	h["nd_i32"] = nd("i32", 32)
	h["nd_u64"] = nd("u64", 64)
	h["nd_i64"] = nd("i64", 64)
	h["nd_int"] = nd("int", 64)
	h["nd_bytes"] = func(ex *Exec, fn *ssa.Function, args []Value) Value {
		n := args[0].(*Term)
		if !n.IsConst() {
			panic(engineErr("nd_bytes with symbolic length"))
		}
		a := make([]Value, n.Val)
		for i := range a {
			a[i] = ex.fresh("u8", 8)
		}
		return Slice{A: a, NonNil: true}
	}
	h["nd_string"] = func(ex *Exec, fn *ssa.Function, args []Value) Value {
		n := args[0].(*Term)
		if !n.IsConst() {
			panic(engineErr("nd_string with symbolic length"))
		}
		bs := make([]*Term, n.Val)
		for i := range bs {
			bs[i] = ex.fresh("u8", 8)
		}
		if len(bs) == 0 {
			return Str{}
		}
		return mkStr(bs)
	}
	// nd_range(lo, hi): lo + raw % (hi-lo+1) for a fresh byte raw, concretised.
	h["nd_range"] = func(ex *Exec, fn *ssa.Function, args []Value) Value {
		lo, hi := args[0].(*Term), args[1].(*Term)
		if !lo.IsConst() || !hi.IsConst() || hi.Signed() < lo.Signed() {
			panic(engineErr("nd_range needs concrete lo <= hi"))
		}
		n := uint64(hi.Signed()-lo.Signed()) + 1
		raw := ex.st.ZExt(ex.fresh("u8", 8), 64)
		v := ex.st.Bin(OpAdd, lo, ex.st.Bin(OpURem, raw, ex.st.Const(64, n)))
		c := ex.concretize(v, lo.Signed(), hi.Signed(), "nd_range")
		return ex.st.Const(64, uint64(c))
	}
	h["vassume"] = func(ex *Exec, fn *ssa.Function, args []Value) Value {
		c := args[0].(*Term)
		if c.IsConst() {
			if c.Val == 0 {
				panic(pathEnd{"assume"})
			}
			return nil
		}
		if ex.replaying() || true {
			// assumptions are decisions too, so that replay does not re-check them
			if !ex.branchAssume(c) {
				panic(pathEnd{"assume"})
			}
		}
		return nil
	}
	h["vassert"] = func(ex *Exec, fn *ssa.Function, args []Value) Value {
		msg, _ := args[1].(Str).Concrete()
		// A failed harness assertion ends the path: what follows would only be
		// explored for the inputs that satisfy it, and reference code past a failed
		// check tends to run on garbage.
		n := len(ex.res.Violations)
		ex.require(args[0].(*Term), "assert", msg)
		if len(ex.res.Violations) > n {
			panic(pathEnd{"violated"})
		}
		return nil
	}
	h["vreach"] = func(ex *Exec, fn *ssa.Function, args []Value) Value {
		msg, _ := args[0].(Str).Concrete()
		ex.res.Reached[msg] = true
		return nil
	}
	h["vsymbolic"] = func(ex *Exec, fn *ssa.Function, args []Value) Value { return ex.st.True }
	h["vconc"] = func(ex *Exec, fn *ssa.Function, args []Value) Value {
		lo, hi := args[1].(*Term), args[2].(*Term)
		v := ex.concretize(args[0].(*Term), lo.Signed(), hi.Signed(), "vconc")
		return ex.st.Const(64, uint64(v))
	}
	h["vlog"] = func(ex *Exec, fn *ssa.Function, args []Value) Value {
		if ex.eng.Verbose {
			fmt.Println("vlog:", describe(args[0]))
		}
		return nil
	}
	h["vsample"] = func(ex *Exec, fn *ssa.Function, args []Value) Value {
		// record a human-readable description of this path for the evidence file
		var parts []string
		if s, ok := args[0].(Str).Concrete(); ok {
			parts = append(parts, s)
		}
		ex.res.Sample = strings.Join(parts, " ")
		return nil
	}
	// vhash_* : ideal-hash model usable directly from harness code
	h["vparam"] = func(ex *Exec, fn *ssa.Function, args []Value) Value {
		name, _ := args[0].(Str).Concrete()
		v, ok := ex.eng.Params[name]
		if !ok {
			panic(engineErr("vparam(%q) not set", name))
		}
		return ex.st.Const(64, uint64(int64(v)))
	}
	h["vnote"] = func(ex *Exec, fn *ssa.Function, args []Value) Value {
		s, _ := args[0].(Str).Concrete()
		ex.res.Truncated = append(ex.res.Truncated, "note: "+s)
		return nil
	}

	in := intrinsics
	// --- logging: empty bodies ---
	for _, n := range []string{
		"(*log.Logger).Printf", "(*log.Logger).Println", "(*log.Logger).Print", "log.Printf", "log.Println", "log.Print",
		"(*github.com/gokrazy/rsync/internal/rsyncos.Env).Logf",
		"(*github.com/gokrazy/rsync/internal/progress.Printer).Reset",
		"(*github.com/gokrazy/rsync/internal/progress.Printer).MaybeShow",
		"(*github.com/gokrazy/rsync/internal/progress.Printer).Show",
	} {
		in[n] = nop
	}
	in["log.New"] = func(ex *Exec, fn *ssa.Function, args []Value) Value {
		c := new(Value)
		*c = ex.zero(deref(fn.Signature.Results().At(0).Type()))
		return Ptr{c}
	}
	in["(*log.Logger).Output"] = func(ex *Exec, fn *ssa.Function, args []Value) Value { return Iface{} }
	for _, n := range []string{"log.Fatalf", "log.Fatal", "log.Fatalln", "(*log.Logger).Fatalf", "(*log.Logger).Fatal", "os.Exit"} {
		name := n
		in[n] = func(ex *Exec, fn *ssa.Function, args []Value) Value {
			ex.require(ex.st.False, "exit", "process exit via "+name)
			panic(pathEnd{"exit"})
		}
	}
	in["github.com/gokrazy/rsync/internal/version.Read"] = func(ex *Exec, fn *ssa.Function, args []Value) Value {
		return Str{S: "gokrazy/rsync (version information is not modelled)"}
	}
	in["os.Getpid"] = func(ex *Exec, fn *ssa.Function, args []Value) Value { return ex.st.Const(64, 4242) }
	in["os.Getuid"] = func(ex *Exec, fn *ssa.Function, args []Value) Value { return ex.st.Const(64, 0) }
	in["os.Getenv"] = func(ex *Exec, fn *ssa.Function, args []Value) Value { return Str{} }
	in["time.Now"] = func(ex *Exec, fn *ssa.Function, args []Value) Value {
		// Time{wall, ext, loc}: no monotonic reading, ext = seconds since year 1
		// not an nd input: native replays read the real clock
		var sec *Term
		if ex.isConcrete {
			sec = ex.st.Const(64, 63000000000)
		} else {
			ex.nowCount++
			sec = ex.st.Var(fmt.Sprintf("now%d", ex.nowCount), 64)
		}
		z := ex.zero(fn.Signature.Results().At(0).Type()).(Struct)
		z[0] = ex.st.Const(64, 0)
		z[1] = sec
		return z
	}
	// time.Time.Truncate(time.Second): clears the nanosecond field (no monotonic reading).
	// The generic path divides a symbolic 64-bit value by 1e9, which no solver here decides.
	in["(time.Time).Truncate"] = func(ex *Exec, fn *ssa.Function, args []Value) Value {
		t := args[0].(Struct)
		d := args[1].(*Term)
		wall := t[0].(*Term)
		if !d.IsConst() || d.Val != 1000000000 {
			panic(engineErr("time.Truncate with a duration other than time.Second is not modelled"))
		}
		mono := ex.st.Extract(wall, 63, 1)
		if !(mono.IsConst() && mono.Val == 0) {
			if ex.isConcrete || ex.check(ex.st.Eq(mono, ex.st.Const(1, 1))) != Unsat {
				panic(engineErr("time.Truncate on a time with a monotonic reading is not modelled"))
			}
		}
		out := make(Struct, len(t))
		copy(out, t)
		out[0] = ex.st.Bin(OpBAnd, wall, ex.st.Const(64, ^uint64(0x3fffffff)))
		return out
	}
	// time.Time.Round(time.Second): same reasoning; halfway values round up.
	in["(time.Time).Round"] = func(ex *Exec, fn *ssa.Function, args []Value) Value {
		t := args[0].(Struct)
		d := args[1].(*Term)
		wall := t[0].(*Term)
		if !d.IsConst() || d.Val != 1000000000 {
			panic(engineErr("time.Round with a duration other than time.Second is not modelled"))
		}
		mono := ex.st.Extract(wall, 63, 1)
		if !(mono.IsConst() && mono.Val == 0) {
			if ex.isConcrete || ex.check(ex.st.Eq(mono, ex.st.Const(1, 1))) != Unsat {
				panic(engineErr("time.Round on a time with a monotonic reading is not modelled"))
			}
		}
		nsec := ex.st.Bin(OpBAnd, wall, ex.st.Const(64, 0x3fffffff))
		up := ex.st.Not(ex.st.Ult(nsec, ex.st.Const(64, 500000000)))
		out := make(Struct, len(t))
		copy(out, t)
		out[0] = ex.st.Bin(OpBAnd, wall, ex.st.Const(64, ^uint64(0x3fffffff)))
		out[1] = ex.st.Ite(up, ex.st.Bin(OpAdd, t[1].(*Term), ex.st.Const(64, 1)), t[1].(*Term))
		return out
	}
	// context: cancellation is not modelled (sequentialised execution); derived contexts are the parent
	in["context.WithCancel"] = func(ex *Exec, fn *ssa.Function, args []Value) Value {
		return Tuple{args[0], NativeFunc(func(ex *Exec, a []Value) Value { return nil })}
	}
	in["context.WithTimeout"] = func(ex *Exec, fn *ssa.Function, args []Value) Value {
		return Tuple{args[0], NativeFunc(func(ex *Exec, a []Value) Value { return nil })}
	}
	in["runtime.Gosched"] = nop
	in["runtime.KeepAlive"] = nop
	in["runtime.SetFinalizer"] = nop

	// --- os/user: name service is outside the model; every lookup fails ---
	// (instances with parameter namesvc=1 get a name service in which every id lookup
	// succeeds: users are all called "usr", groups "grp" - enough to tell the two id lists apart)
	for _, n := range []string{"os/user.Lookup", "os/user.LookupId", "os/user.LookupGroup", "os/user.LookupGroupId", "os/user.Current"} {
		name := n
		in[n] = func(ex *Exec, fn *ssa.Function, args []Value) Value {
			if ex.eng.Params["namesvc"] == 1 && (name == "os/user.LookupId" || name == "os/user.LookupGroupId") {
				c := new(Value)
				z := ex.zero(deref(fn.Signature.Results().At(0).Type())).(Struct)
				if name == "os/user.LookupId" {
					z[2] = Str{S: "usr"} // User.Username
				} else {
					z[1] = Str{S: "grp"} // Group.Name
				}
				*c = z
				return Tuple{Ptr{c}, Iface{}}
			}
			return Tuple{Ptr{}, ex.mkError("user: lookup not available in the model")}
		}
	}

	// --- fmt ---
	in["fmt.Errorf"] = func(ex *Exec, fn *ssa.Function, args []Value) Value {
		s := ex.format(args[0].(Str), args[1].(Slice))
		return ex.mkErrorStr(s)
	}
	in["errors.New"] = func(ex *Exec, fn *ssa.Function, args []Value) Value {
		return ex.mkErrorStr(args[0].(Str))
	}
	in["fmt.Sprintf"] = func(ex *Exec, fn *ssa.Function, args []Value) Value {
		return ex.format(args[0].(Str), args[1].(Slice))
	}
	in["fmt.Sprint"] = func(ex *Exec, fn *ssa.Function, args []Value) Value {
		return ex.sprint(args[0].(Slice), false)
	}
	in["fmt.Sprintln"] = func(ex *Exec, fn *ssa.Function, args []Value) Value {
		return ex.sprint(args[0].(Slice), true)
	}
	in["fmt.Appendf"] = func(ex *Exec, fn *ssa.Function, args []Value) Value {
		s := ex.format(args[1].(Str), args[2].(Slice))
		b := args[0].(Slice)
		out := append([]Value{}, b.A...)
		for _, t := range ex.strBytes(s) {
			out = append(out, t)
		}
		return Slice{A: out, NonNil: true}
	}
	fprint := func(mk func(ex *Exec, args []Value) Str) Intrinsic {
		return func(ex *Exec, fn *ssa.Function, args []Value) Value {
			s := mk(ex, args)
			w := args[0].(Iface)
			if w.T == nil {
				ex.require(ex.st.False, "nil", "fmt.Fprint* to nil io.Writer")
			}
			bs := ex.strBytes(s)
			a := make([]Value, len(bs))
			for i, b := range bs {
				a[i] = b
			}
			res := ex.invoke(w, "Write", []Value{Slice{A: a, NonNil: true}})
			return res
		}
	}
	in["fmt.Fprintf"] = fprint(func(ex *Exec, args []Value) Str { return ex.format(args[1].(Str), args[2].(Slice)) })
	in["fmt.Fprintln"] = fprint(func(ex *Exec, args []Value) Str { return ex.sprint(args[1].(Slice), true) })
	in["fmt.Fprint"] = fprint(func(ex *Exec, args []Value) Str { return ex.sprint(args[1].(Slice), false) })
	in["fmt.Printf"] = func(ex *Exec, fn *ssa.Function, args []Value) Value {
		return Tuple{ex.st.Const(64, 0), Iface{}}
	}
	in["fmt.Println"] = in["fmt.Printf"]
	in["fmt.Print"] = in["fmt.Printf"]

	// --- encoding/binary ---
	in["encoding/binary.Write"] = binaryWrite
	in["encoding/binary.Read"] = binaryRead

	// --- sort ---
	in["sort.Slice"] = sortSlice
	in["sort.SliceStable"] = sortSlice
	in["sort.Strings"] = func(ex *Exec, fn *ssa.Function, args []Value) Value {
		s := args[0].(Slice)
		for i := 1; i < len(s.A); i++ {
			for j := i; j > 0; j-- {
				lt := ex.strLess(s.A[j].(Str), s.A[j-1].(Str), false)
				if !ex.branch(lt) {
					break
				}
				s.A[j], s.A[j-1] = s.A[j-1], s.A[j]
			}
		}
		return nil
	}

	// --- sync ---
	for _, n := range []string{
		"(*sync.Mutex).Lock", "(*sync.Mutex).Unlock", "(*sync.RWMutex).Lock", "(*sync.RWMutex).Unlock",
		"(*sync.RWMutex).RLock", "(*sync.RWMutex).RUnlock", "(*sync.WaitGroup).Add", "(*sync.WaitGroup).Done",
		"(*sync.WaitGroup).Wait", "(*sync.Mutex).TryLock",
	} {
		in[n] = nop
	}
	in["(*sync.Once).Do"] = func(ex *Exec, fn *ssa.Function, args []Value) Value {
		p := args[0].(Ptr)
		key := fmt.Sprintf("once:%p", p.P)
		if ex.userData[key] != nil {
			return nil
		}
		ex.userData[key] = true
		ex.call(args[1], nil, ex.cur, ex.curFr)
		return nil
	}
	in["(*sync.Pool).Get"] = func(ex *Exec, fn *ssa.Function, args []Value) Value {
		// always miss: call New if set
		pool := *args[0].(Ptr).P
		s := pool.(Struct)
		newFn := s[len(s)-1]
		if newFn == nil {
			return Iface{}
		}
		return ex.call(newFn, nil, ex.cur, ex.curFr)
	}
	in["(*sync.Pool).Put"] = nop

	// --- errgroup (sequentialised) ---
	const eg = "golang.org/x/sync/errgroup"
	in["("+"*"+eg+".Group).Go"] = func(ex *Exec, fn *ssa.Function, args []Value) Value {
		p := args[0].(Ptr)
		key := fmt.Sprintf("eg:%p", p.P)
		r := ex.call(args[1], nil, ex.cur, ex.curFr).(Iface)
		if r.T != nil && ex.userData[key] == nil {
			ex.userData[key] = r
		}
		return nil
	}
	in["("+"*"+eg+".Group).Wait"] = func(ex *Exec, fn *ssa.Function, args []Value) Value {
		p := args[0].(Ptr)
		key := fmt.Sprintf("eg:%p", p.P)
		if r, ok := ex.userData[key].(Iface); ok {
			return r
		}
		return Iface{}
	}
	in[eg+".WithContext"] = func(ex *Exec, fn *ssa.Function, args []Value) Value {
		gt := deref(fn.Signature.Results().At(0).Type())
		c := new(Value)
		*c = ex.zero(gt)
		return Tuple{Ptr{c}, args[0]}
	}
	in["("+"*"+eg+".Group).SetLimit"] = nop

	// --- md4: ideal hash model ---
	const md4 = "github.com/mmcloughlin/md4"
	in["(*"+md4+".digest).Reset"] = func(ex *Exec, fn *ssa.Function, args []Value) Value {
		ex.hashes[args[0].(Ptr).P] = &hashState{}
		return nil
	}
	in["(*"+md4+".digest).Write"] = func(ex *Exec, fn *ssa.Function, args []Value) Value {
		h := ex.hashOf(args[0])
		s := args[1].(Slice)
		for _, e := range s.A {
			if e == nil {
				h.data = append(h.data, ex.st.Const(8, 0))
			} else {
				h.data = append(h.data, e.(*Term))
			}
		}
		return Tuple{ex.st.Const(64, uint64(len(s.A))), Iface{}}
	}
	in["(*"+md4+".digest).Sum"] = func(ex *Exec, fn *ssa.Function, args []Value) Value {
		h := ex.hashOf(args[0])
		d := ex.digest(h.data)
		in := args[1].(Slice)
		out := append([]Value{}, in.A...)
		for _, b := range d {
			out = append(out, b)
		}
		return Slice{A: out, NonNil: true}
	}
	in["(*"+md4+".digest).Size"] = func(ex *Exec, fn *ssa.Function, args []Value) Value { return ex.st.Const(64, 16) }
	in["(*"+md4+".digest).BlockSize"] = func(ex *Exec, fn *ssa.Function, args []Value) Value { return ex.st.Const(64, 64) }

	// --- strings.Builder (unsafe-based) ---
	in["(*strings.Builder).String"] = func(ex *Exec, fn *ssa.Function, args []Value) Value {
		b := (*args[0].(Ptr).P).(Struct)
		buf := b[1].(Slice)
		bs := make([]*Term, len(buf.A))
		for i, e := range buf.A {
			bs[i] = e.(*Term)
		}
		if len(bs) == 0 {
			return Str{}
		}
		return mkStr(bs)
	}
	in["(*strings.Builder).copyCheck"] = nop
	in["internal/bytealg.MakeNoZero"] = func(ex *Exec, fn *ssa.Function, args []Value) Value {
		n := args[0].(*Term)
		k := ex.concretize(n, 0, 1<<20, "MakeNoZero")
		a := make([]Value, k)
		for i := range a {
			a[i] = ex.st.Const(8, 0)
		}
		return Slice{A: a, NonNil: true}
	}
	in["internal/bytealg.IndexByteString"] = func(ex *Exec, fn *ssa.Function, args []Value) Value {
		return ex.indexByte(ex.strBytes(args[0].(Str)), args[1].(*Term))
	}
	in["internal/bytealg.IndexByte"] = func(ex *Exec, fn *ssa.Function, args []Value) Value {
		return ex.indexByte(sliceBytes(ex, args[0].(Slice)), args[1].(*Term))
	}
	in["internal/bytealg.CountString"] = func(ex *Exec, fn *ssa.Function, args []Value) Value {
		return ex.countByte(ex.strBytes(args[0].(Str)), args[1].(*Term))
	}
	in["internal/bytealg.Count"] = func(ex *Exec, fn *ssa.Function, args []Value) Value {
		return ex.countByte(sliceBytes(ex, args[0].(Slice)), args[1].(*Term))
	}
	in["internal/bytealg.Equal"] = func(ex *Exec, fn *ssa.Function, args []Value) Value {
		return ex.bytesEqual(sliceBytes(ex, args[0].(Slice)), sliceBytes(ex, args[1].(Slice)))
	}
	in["bytes.Equal"] = in["internal/bytealg.Equal"]
	in["internal/bytealg.Compare"] = func(ex *Exec, fn *ssa.Function, args []Value) Value {
		a, b := mkStr(sliceBytes(ex, args[0].(Slice))), mkStr(sliceBytes(ex, args[1].(Slice)))
		return ex.strCompare(a, b)
	}
	in["internal/bytealg.CompareString"] = func(ex *Exec, fn *ssa.Function, args []Value) Value {
		return ex.strCompare(args[0].(Str), args[1].(Str))
	}
	in["strings.Compare"] = in["internal/bytealg.CompareString"]
	in["internal/bytealg.IndexString"] = func(ex *Exec, fn *ssa.Function, args []Value) Value {
		return ex.indexString(args[0].(Str), args[1].(Str))
	}
	in["strings.Index"] = in["internal/bytealg.IndexString"]
	in["internal/stringslite.Index"] = in["internal/bytealg.IndexString"]
	in["internal/bytealg.Index"] = func(ex *Exec, fn *ssa.Function, args []Value) Value {
		return ex.indexString(mkStr(sliceBytes(ex, args[0].(Slice))), mkStr(sliceBytes(ex, args[1].(Slice))))
	}
	in["bytes.Index"] = in["internal/bytealg.Index"]
	in["internal/stringslite.Clone"] = func(ex *Exec, fn *ssa.Function, args []Value) Value { return args[0] }
	in["strings.Clone"] = in["internal/stringslite.Clone"]
	in["strings.HasPrefix"] = func(ex *Exec, fn *ssa.Function, args []Value) Value {
		s, p := args[0].(Str), args[1].(Str)
		if s.Len() < p.Len() {
			return ex.st.False
		}
		return ex.bytesEqual(ex.strBytes(s)[:p.Len()], ex.strBytes(p))
	}
	in["internal/stringslite.HasPrefix"] = in["strings.HasPrefix"]
	in["strings.HasSuffix"] = func(ex *Exec, fn *ssa.Function, args []Value) Value {
		s, p := args[0].(Str), args[1].(Str)
		if s.Len() < p.Len() {
			return ex.st.False
		}
		return ex.bytesEqual(ex.strBytes(s)[s.Len()-p.Len():], ex.strBytes(p))
	}
	in["internal/stringslite.HasSuffix"] = in["strings.HasSuffix"]

	// --- math ---
	in["math.Sqrt"] = func(ex *Exec, fn *ssa.Function, args []Value) Value { return Float{math.Sqrt(args[0].(Float).F)} }
	in["math.sqrt"] = in["math.Sqrt"]
	in["math.Floor"] = func(ex *Exec, fn *ssa.Function, args []Value) Value { return Float{math.Floor(args[0].(Float).F)} }
	in["math.Ceil"] = func(ex *Exec, fn *ssa.Function, args []Value) Value { return Float{math.Ceil(args[0].(Float).F)} }
	in["math.Float64bits"] = func(ex *Exec, fn *ssa.Function, args []Value) Value {
		return ex.st.Const(64, math.Float64bits(args[0].(Float).F))
	}
	in["math.Float64frombits"] = func(ex *Exec, fn *ssa.Function, args []Value) Value {
		t := args[0].(*Term)
		if !t.IsConst() {
			panic(engineErr("Float64frombits symbolic"))
		}
		return Float{math.Float64frombits(t.Val)}
	}

	// --- strconv on concrete or symbolic small ints ---
	in["strconv.Itoa"] = func(ex *Exec, fn *ssa.Function, args []Value) Value {
		t := args[0].(*Term)
		if t.IsConst() {
			return Str{S: strconv.FormatInt(t.Signed(), 10)}
		}
		// decimal text of a symbolic integer: opaque (only feeds name-service lookups here)
		ex.res.Truncated = append(ex.res.Truncated, "note: symbolic integer formatted as text")
		return Str{S: "<sym>"}
	}

	// --- errors.Is / errors.As ---
	in["errors.Is"] = func(ex *Exec, fn *ssa.Function, args []Value) Value {
		err, target := args[0].(Iface), args[1].(Iface)
		for depth := 0; depth < 16; depth++ {
			if err.T == nil {
				return ex.st.Bool(target.T == nil)
			}
			eq := ex.equal(err, target)
			if ex.branch(eq) {
				return ex.st.True
			}
			if m := ex.findMethod(err.T, "Is"); m != nil {
				r := ex.callSSA(m, []Value{err.V, target}, nil, ex.curFr).(*Term)
				if ex.branch(r) {
					return ex.st.True
				}
			}
			m := ex.findMethod(err.T, "Unwrap")
			if m == nil {
				return ex.st.False
			}
			next, ok := ex.callSSA(m, []Value{err.V}, nil, ex.curFr).(Iface)
			if !ok {
				return ex.st.False // Unwrap() []error: not followed
			}
			err = next
		}
		return ex.st.False
	}
	in["errors.As"] = func(ex *Exec, fn *ssa.Function, args []Value) Value {
		err, target := args[0].(Iface), args[1].(Iface)
		if target.T == nil {
			panic(ex.newPanic(nil, "errors: target cannot be nil"))
		}
		elemT := deref(target.T)
		for depth := 0; depth < 16; depth++ {
			if err.T == nil {
				return ex.st.False
			}
			if it, ok := elemT.Underlying().(*types.Interface); ok {
				if ex.implements(err.T, it) {
					ex.store(target.V, err)
					return ex.st.True
				}
			} else if types.Identical(err.T, elemT) {
				ex.store(target.V, err.V)
				return ex.st.True
			}
			m := ex.findMethod(err.T, "Unwrap")
			if m == nil {
				return ex.st.False
			}
			next, ok := ex.callSSA(m, []Value{err.V}, nil, ex.curFr).(Iface)
			if !ok {
				return ex.st.False
			}
			err = next
		}
		return ex.st.False
	}
}

// branchAssume: like branch, but the false side is not explored (assumption).
func (ex *Exec) branchAssume(c *Term) bool {
	if ex.replaying() {
		d := ex.prefix[len(ex.trace)]
		ex.trace = append(ex.trace, d)
		if d.Taken {
			ex.assume(c)
		}
		return d.Taken
	}
	r := ex.check(c)
	if r == Unsat {
		ex.trace = append(ex.trace, Decision{Kind: dBranch, Taken: false, Forced: true})
		return false
	}
	ex.trace = append(ex.trace, Decision{Kind: dBranch, Taken: true})
	ex.assume(c)
	return true
}

// findMethod returns the method called name in T's method set, or nil.
func (ex *Exec) findMethod(T types.Type, name string) *ssa.Function {
	ms := ex.eng.Prog.MethodSets.MethodSet(T)
	for i := 0; i < ms.Len(); i++ {
		if ms.At(i).Obj().Name() == name {
			return ex.eng.Prog.MethodValue(ms.At(i))
		}
	}
	return nil
}

// invoke calls method name on an interface value.
func (ex *Exec) invoke(recv Iface, name string, args []Value) Value {
	if recv.T == nil {
		ex.require(ex.st.False, "nil", "method "+name+" on nil interface")
	}
	f := ex.findMethod(recv.T, name)
	if f == nil {
		panic(engineErr("invoke: no method %s on %v", name, recv.T))
	}
	return ex.callSSA(f, append([]Value{recv.V}, args...), nil, ex.curFr)
}

// --- errors ---

func (ex *Exec) mkError(msg string) Value { return ex.mkErrorStr(Str{S: msg}) }

func (ex *Exec) mkErrorStr(msg Str) Value {
	p := ex.eng.Pkgs["errors"]
	if p == nil {
		panic(engineErr("package errors not loaded"))
	}
	t := p.Type("errorString").Type()
	var cell Value = Struct{msg}
	return Iface{T: types.NewPointer(t), V: Ptr{&cell}}
}

// --- formatting ---

func (ex *Exec) argStr(verb byte, v Value) Str {
	switch x := v.(type) {
	case Iface:
		if x.T == nil {
			return Str{S: "<nil>"}
		}
		// error / Stringer
		if verb != 'd' && verb != 'x' && verb != 'o' {
			if m := ex.findMethod(x.T, "Error"); m != nil && m.Signature.Params().Len() == 0 {
				if p, isPtr := x.V.(Ptr); !isPtr || p.P != nil {
					return ex.callSSA(m, []Value{x.V}, nil, ex.curFr).(Str)
				}
			}
			if _, isBasic := x.T.Underlying().(*types.Basic); !isBasic {
				if m := ex.findMethod(x.T, "String"); m != nil && m.Signature.Params().Len() == 0 && m.Blocks != nil {
					if p, isPtr := x.V.(Ptr); !isPtr || p.P != nil {
						func() {
							defer func() {
								if r := recover(); r != nil {
									if _, ok := r.(*EngineError); !ok {
										panic(r)
									}
								}
							}()
						}()
					}
				}
			}
		}
		return ex.argStrT(verb, x.V, x.T)
	}
	return ex.argStrT(verb, v, nil)
}

func (ex *Exec) argStrT(verb byte, v Value, t types.Type) Str {
	switch x := v.(type) {
	case *Term:
		if !x.IsConst() {
			ex.res.Truncated = append(ex.res.Truncated, "note: symbolic integer formatted as text")
			return Str{S: "<sym>"}
		}
		if x.W == 0 {
			return Str{S: strconv.FormatBool(x.Val != 0)}
		}
		signed := true
		if t != nil {
			_, signed, _ = intWidth(t)
		}
		base := 10
		switch verb {
		case 'x':
			base = 16
		case 'o':
			base = 8
		case 'c':
			return Str{S: string(rune(x.Val))}
		}
		if signed {
			return Str{S: strconv.FormatInt(x.Signed(), base)}
		}
		return Str{S: strconv.FormatUint(x.Val, base)}
	case Str:
		if verb == 'q' {
			if s, ok := x.Concrete(); ok {
				return Str{S: strconv.Quote(s)}
			}
			return mkStr(append(append([]*Term{ex.st.Const(8, '"')}, ex.strBytes(x)...), ex.st.Const(8, '"')))
		}
		if verb == 'x' {
			if s, ok := x.Concrete(); ok {
				return Str{S: fmt.Sprintf("%x", s)}
			}
			return Str{S: "<symhex>"}
		}
		return x
	case Slice:
		// []byte with %s / %q / %x
		if t != nil {
			if st, ok := t.Underlying().(*types.Slice); ok {
				if b, ok := st.Elem().Underlying().(*types.Basic); ok && b.Kind() == types.Uint8 {
					return ex.argStrT(verb, mkStr(sliceBytes(ex, x)), nil)
				}
				var parts []Str
				for _, e := range x.A {
					parts = append(parts, ex.argStrT(verb, e, st.Elem()))
				}
				return ex.joinStr("[", parts, " ", "]")
			}
		}
		return Str{S: "[...]"}
	case Float:
		return Str{S: strconv.FormatFloat(x.F, 'g', -1, 64)}
	case Ptr:
		if x.P == nil {
			return Str{S: "<nil>"}
		}
		return Str{S: "0xc000000000"}
	case Struct:
		return Str{S: "{...}"}
	case nil:
		return Str{S: "<nil>"}
	}
	return Str{S: fmt.Sprintf("<%T>", v)}
}

func (ex *Exec) joinStr(open string, parts []Str, sep, close string) Str {
	var bs []*Term
	add := func(s Str) { bs = append(bs, ex.strBytes(s)...) }
	add(Str{S: open})
	for i, p := range parts {
		if i > 0 {
			add(Str{S: sep})
		}
		add(p)
	}
	add(Str{S: close})
	if len(bs) == 0 {
		return Str{}
	}
	return mkStr(bs)
}

func (ex *Exec) format(f Str, args Slice) Str {
	fs, ok := f.Concrete()
	if !ok {
		return ex.formatSym(f, args)
	}
	var bs []*Term
	addS := func(s string) {
		for i := 0; i < len(s); i++ {
			bs = append(bs, ex.st.Const(8, uint64(s[i])))
		}
	}
	ai := 0
	for i := 0; i < len(fs); i++ {
		c := fs[i]
		if c != '%' {
			bs = append(bs, ex.st.Const(8, uint64(c)))
			continue
		}
		i++
		if i >= len(fs) {
			addS("%!(NOVERB)")
			break
		}
		// flags / width / precision are parsed and ignored except for plain padding-free use
		for i < len(fs) && strings.IndexByte("+-# 0123456789.", fs[i]) >= 0 {
			i++
		}
		if i >= len(fs) {
			break
		}
		verb := fs[i]
		if verb == '%' {
			bs = append(bs, ex.st.Const(8, '%'))
			continue
		}
		if ai >= len(args.A) {
			addS("%!" + string(verb) + "(MISSING)")
			continue
		}
		if verb == 'w' {
			verb = 'v'
		}
		s := ex.argStr(verb, args.A[ai])
		ai++
		bs = append(bs, ex.strBytes(s)...)
	}
	if len(bs) == 0 {
		return Str{}
	}
	return mkStr(bs)
}

// formatSym handles a format string with symbolic bytes (e.g. peer data used as a format):
// it forks on each byte being '%'. A verb without an operand renders as Go does
// ("%!v(MISSING)", "%%" -> "%"); operands, if any, are consumed in order with %v semantics.
func (ex *Exec) formatSym(f Str, args Slice) Str {
	st := ex.st
	bs := ex.strBytes(f)
	var out []*Term
	add := func(s string) {
		for i := 0; i < len(s); i++ {
			out = append(out, st.Const(8, uint64(s[i])))
		}
	}
	ai := 0
	for i := 0; i < len(bs); i++ {
		if !ex.branch(st.Eq(bs[i], st.Const(8, '%'))) {
			out = append(out, bs[i])
			continue
		}
		i++
		if i >= len(bs) {
			add("%!(NOVERB)")
			break
		}
		if ex.branch(st.Eq(bs[i], st.Const(8, '%'))) {
			add("%")
			continue
		}
		if ai < len(args.A) {
			out = append(out, ex.strBytes(ex.argStr('v', args.A[ai]))...)
			ai++
			continue
		}
		add("%!")
		out = append(out, bs[i])
		add("(MISSING)")
	}
	if len(out) == 0 {
		return Str{}
	}
	return mkStr(out)
}

func (ex *Exec) sprint(args Slice, ln bool) Str {
	var parts []Str
	for _, a := range args.A {
		parts = append(parts, ex.argStr('v', a))
	}
	sep := ""
	if ln {
		sep = " "
	}
	cl := ""
	if ln {
		cl = "\n"
	}
	return ex.joinStr("", parts, sep, cl)
}

// --- byte helpers ---

func sliceBytes(ex *Exec, s Slice) []*Term {
	out := make([]*Term, len(s.A))
	for i, e := range s.A {
		if e == nil {
			out[i] = ex.st.Const(8, 0)
		} else {
			out[i] = e.(*Term)
		}
	}
	return out
}

func (ex *Exec) bytesEqual(a, b []*Term) *Term {
	if len(a) != len(b) {
		return ex.st.False
	}
	r := ex.st.True
	for i := range a {
		r = ex.st.And(r, ex.st.Eq(a[i], b[i]))
		if r == ex.st.False {
			break
		}
	}
	return r
}

func (ex *Exec) indexByte(bs []*Term, c *Term) Value {
	st := ex.st
	r := st.Const(64, ^uint64(0))
	for i := len(bs) - 1; i >= 0; i-- {
		r = st.Ite(st.Eq(bs[i], c), st.Const(64, uint64(i)), r)
	}
	return r
}

func (ex *Exec) countByte(bs []*Term, c *Term) Value {
	st := ex.st
	r := st.Const(64, 0)
	for _, b := range bs {
		r = st.Bin(OpAdd, r, st.Ite(st.Eq(b, c), st.Const(64, 1), st.Const(64, 0)))
	}
	return r
}

func (ex *Exec) strCompare(a, b Str) Value {
	st := ex.st
	lt := ex.strLess(a, b, false)
	eq := ex.equal(a, b)
	return st.Ite(eq, st.Const(64, 0), st.Ite(lt, st.Const(64, ^uint64(0)), st.Const(64, 1)))
}

func (ex *Exec) indexString(s, sub Str) Value {
	st := ex.st
	if s.Sym == nil && sub.Sym == nil {
		return st.Const(64, uint64(int64(strings.Index(s.S, sub.S))))
	}
	n, m := s.Len(), sub.Len()
	r := st.Const(64, ^uint64(0))
	sb, pb := ex.strBytes(s), ex.strBytes(sub)
	for i := n - m; i >= 0; i-- {
		r = st.Ite(ex.bytesEqual(sb[i:i+m], pb), st.Const(64, uint64(i)), r)
	}
	return r
}

// --- encoding/binary ---

func (ex *Exec) intToBytes(t *Term, little bool) []Value {
	n := t.W / 8
	out := make([]Value, n)
	for i := 0; i < n; i++ {
		b := ex.st.Extract(t, 8*i, 8)
		if little {
			out[i] = b
		} else {
			out[n-1-i] = b
		}
	}
	return out
}

func (ex *Exec) bytesToInt(bs []*Term, little bool) *Term {
	n := len(bs)
	var r *Term
	for i := 0; i < n; i++ {
		var b *Term
		if little {
			b = bs[n-1-i]
		} else {
			b = bs[i]
		}
		if r == nil {
			r = b
		} else {
			r = ex.st.Concat(r, b)
		}
	}
	return r
}

func isLittle(order Value) bool {
	it := order.(Iface)
	return strings.Contains(it.T.String(), "littleEndian")
}

func binaryWrite(ex *Exec, fn *ssa.Function, args []Value) Value {
	w := args[0].(Iface)
	little := isLittle(args[1])
	data := args[2].(Iface)
	var bytesV []Value
	var enc func(v Value)
	enc = func(v Value) {
		switch x := v.(type) {
		case *Term:
			if x.W == 0 {
				bytesV = append(bytesV, ex.st.Ite(x, ex.st.Const(8, 1), ex.st.Const(8, 0)))
				return
			}
			bytesV = append(bytesV, ex.intToBytes(x, little)...)
		case Ptr:
			enc(*x.P)
		case Slice:
			for _, e := range x.A {
				enc(e)
			}
		case Array:
			for _, e := range x {
				enc(e)
			}
		case Struct:
			for _, e := range x {
				enc(e)
			}
		default:
			panic(engineErr("binary.Write of %T", v))
		}
	}
	enc(data.V)
	res := ex.invoke(w, "Write", []Value{Slice{A: bytesV, NonNil: true}}).(Tuple)
	return res[1]
}

func binaryRead(ex *Exec, fn *ssa.Function, args []Value) Value {
	r := args[0].(Iface)
	little := isLittle(args[1])
	data := args[2].(Iface)
	// compute the size
	var size int
	var walk func(v Value) bool
	walk = func(v Value) bool {
		switch x := v.(type) {
		case *Term:
			if x.W == 0 {
				size++
			} else {
				size += x.W / 8
			}
		case Array:
			for _, e := range x {
				if !walk(e) {
					return false
				}
			}
		case Struct:
			for _, e := range x {
				if !walk(e) {
					return false
				}
			}
		case Slice:
			for _, e := range x.A {
				if !walk(e) {
					return false
				}
			}
		default:
			return false
		}
		return true
	}
	var target Value
	switch d := data.V.(type) {
	case Ptr:
		if *d.P == nil {
			*d.P = ex.zero(deref(data.T))
		}
		target = *d.P
	case Slice:
		target = d
	default:
		panic(engineErr("binary.Read into %T", data.V))
	}
	if !walk(target) {
		panic(engineErr("binary.Read into unsupported shape %T", target))
	}
	buf := make([]Value, size)
	for i := range buf {
		buf[i] = ex.st.Const(8, 0)
	}
	bs := Slice{A: buf, NonNil: true}
	readFull := ex.eng.lookupFunc("io", "ReadFull")
	res := ex.callSSA(readFull, []Value{r, bs}, nil, ex.curFr).(Tuple)
	errv := res[1].(Iface)
	if errv.T != nil {
		return errv
	}
	pos := 0
	var dec func(v Value) Value
	dec = func(v Value) Value {
		switch x := v.(type) {
		case *Term:
			if x.W == 0 {
				b := buf[pos].(*Term)
				pos++
				return ex.st.Not(ex.st.Eq(b, ex.st.Const(8, 0)))
			}
			n := x.W / 8
			bsl := make([]*Term, n)
			for i := 0; i < n; i++ {
				bsl[i] = buf[pos+i].(*Term)
			}
			pos += n
			return ex.bytesToInt(bsl, little)
		case Array:
			out := make(Array, len(x))
			for i, e := range x {
				out[i] = dec(e)
			}
			return out
		case Struct:
			out := make(Struct, len(x))
			for i, e := range x {
				out[i] = dec(e)
			}
			return out
		}
		panic(engineErr("binary.Read dec %T", v))
	}
	switch d := data.V.(type) {
	case Ptr:
		ex.store(d, dec(target))
	case Slice:
		for i := range d.A {
			d.A[i] = dec(d.A[i])
		}
	}
	return Iface{}
}

// --- sort.Slice: insertion sort with the real less closure ---

func sortSlice(ex *Exec, fn *ssa.Function, args []Value) Value {
	s := args[0].(Iface).V.(Slice)
	less := args[1]
	n := len(s.A)
	st := ex.st
	for i := 1; i < n; i++ {
		for j := i; j > 0; j-- {
			r := ex.call(less, []Value{st.Const(64, uint64(j)), st.Const(64, uint64(j-1))}, ex.cur, ex.curFr).(*Term)
			if !ex.branch(r) {
				break
			}
			s.A[j], s.A[j-1] = s.A[j-1], s.A[j]
		}
	}
	return nil
}

// --- ideal hash model ---

type hashState struct{ data []*Term }

type digestRec struct {
	data []*Term
	out  []*Term
}

func (ex *Exec) hashOf(p Value) *hashState {
	c := p.(Ptr).P
	h := ex.hashes[c]
	if h == nil {
		h = &hashState{}
		ex.hashes[c] = h
	}
	return h
}

// digest returns 16 byte terms standing for H(data), with the ideal-hash axioms
// (function: equal inputs => equal outputs; collision-free on the full 128 bits)
// asserted against every digest produced earlier on this path.
func (ex *Exec) digest(data []*Term) []*Term {
	st := ex.st
	// identical transcript (syntactically): reuse
	for _, d := range ex.digests {
		if len(d.data) == len(data) {
			same := true
			for i := range data {
				if d.data[i] != data[i] {
					same = false
					break
				}
			}
			if same {
				return d.out
			}
		}
	}
	out := make([]*Term, 16)
	if ex.isConcrete {
		// concrete mode: the real MD4, so that results agree with the native build
		h := md4.New()
		raw := make([]byte, len(data))
		for i, b := range data {
			raw[i] = byte(b.Val)
		}
		h.Write(raw)
		for i, b := range h.Sum(nil) {
			out[i] = st.Const(8, uint64(b))
		}
	} else {
		k := len(ex.digests)
		for i := range out {
			out[i] = st.Var(fmt.Sprintf("H%d_%d", k, i), 8)
		}
	}
	cp := append([]*Term{}, data...)
	rec := &digestRec{data: cp, out: out}
	if !ex.isConcrete {
		for _, d := range ex.digests {
			var inEq *Term
			if len(d.data) != len(data) {
				inEq = st.False
			} else {
				inEq = ex.bytesEqual(d.data, data)
			}
			np := 16
			if v, ok := ex.eng.Params["hashprefix"]; ok && v > 0 && v < 16 {
				np = v
			}
			outEq := ex.bytesEqual(d.out[:np], out[:np])
			if np < 16 {
				// function axiom on the full digest
				ex.assume(st.Implies(inEq, ex.bytesEqual(d.out, out)))
			}
			// inEq <=> outEq
			ex.assume(st.Eq(inEq, outEq))
		}
	}
	ex.digests = append(ex.digests, rec)
	return out
}
