package sym

import (
	"fmt"
	"go/constant"
	"go/token"
	"go/types"
	"os"
	"time"
	"sort"
	"unicode/utf8"

	"golang.org/x/tools/go/ssa"
)

// Decision is one recorded choice on a path.
type Decision struct {
	Taken  bool
	Forced bool  // implied by the path condition: nothing to assert on replay
	Val    int64 // concretisation value (Kind==dConc)
	Kind   uint8
}

const (
	dBranch uint8 = iota
	dConc
	dReq // obligation already discharged on an earlier run of this prefix
)

// Violation is a failed obligation with a concrete witness.
type Violation struct {
	Kind   string   `json:"kind"` // assert | panic | bounds | nil | div0 | makeslice | exit | typeassert
	Msg    string   `json:"msg"`
	Pos    string   `json:"pos"`
	Fn     string   `json:"fn"`
	Inputs []uint64 `json:"inputs"` // nd values in call order
	Names  []string `json:"names"`
}

// PathResult summarises one explored path.
type PathResult struct {
	End        string // "return" | "assume" | "panic" | "budget" | "bound"
	Steps      int
	Violations []Violation
	Reached    map[string]bool
	Sample     string
	Unknowns   int
	Truncated  []string // bounds that cut this path (outside the claim)
	Fns        map[string]int
}

type pathEnd struct{ reason string }

type targetPanic struct {
	v   Value
	msg string
	pos string
	fn  string
}

func (ex *Exec) newPanic(v Value, msg string) targetPanic {
	return targetPanic{v: v, msg: msg, pos: ex.pos(), fn: ex.fnName()}
}

type deferred struct {
	fn   Value
	args []Value
	site ssa.Instruction
	tail *deferred
}

type frame struct {
	fn        *ssa.Function
	env       map[ssa.Value]Value
	block     *ssa.BasicBlock
	prev      *ssa.BasicBlock
	defers    *deferred
	result    Value
	panicking bool
	panicVal  interface{}
	caller    *frame
	site      ssa.Instruction
}

// Exec executes one path.
type Exec struct {
	eng *Engine
	st  *Store
	sol *Solver

	prefix []Decision
	trace  []Decision

	globals  map[*ssa.Global]*Value
	initDone map[*ssa.Package]bool
	inInit   int

	ndVars []*Term
	steps  int
	res    *PathResult
	cur    ssa.Instruction
	curFr  *frame
	depth  int

	// side tables for modelled objects
	hashes map[*Value]*hashState
	digests []*digestRec
	userData map[string]interface{}
	concrete []uint64 // concrete-mode input vector (nil in symbolic mode)
	concPos  int
	isConcrete bool
	initRoot   *ssa.Function
	overridePos, overrideFn string
	nowCount   int
	lastInstr  ssa.Instruction
	lastFr     *frame
}

func (ex *Exec) pos() string {
	if ex.cur == nil {
		return "?"
	}
	p := ex.eng.Prog.Fset.Position(ex.cur.Pos())
	if !p.IsValid() {
		// nearest positioned instruction in the same block (prefer earlier ones)
		if b := ex.cur.Block(); b != nil {
			idx := -1
			for i, in := range b.Instrs {
				if in == ex.cur {
					idx = i
					break
				}
			}
			for i := idx - 1; i >= 0 && !p.IsValid(); i-- {
				p = ex.eng.Prog.Fset.Position(b.Instrs[i].Pos())
			}
			for i := idx + 1; i < len(b.Instrs) && !p.IsValid(); i++ {
				p = ex.eng.Prog.Fset.Position(b.Instrs[i].Pos())
			}
		}
	}
	if !p.IsValid() && ex.curFr != nil {
		// fall back to enclosing function position
		p = ex.eng.Prog.Fset.Position(ex.curFr.fn.Pos())
	}
	return p.String()
}

func (ex *Exec) fnName() string {
	if ex.curFr == nil {
		return "?"
	}
	return ex.curFr.fn.String()
}

// --- solver interaction ---

func (ex *Exec) assume(c *Term) {
	if c.IsConst() {
		if c.Val == 0 {
			panic(pathEnd{"assume"})
		}
		return
	}
	if ex.sol != nil {
		ex.sol.Assert(c)
	}
}

func (ex *Exec) check(c *Term) Result {
	if c.IsConst() {
		if c.Val != 0 {
			return Sat
		}
		return Unsat
	}
	t0 := time.Now()
	r, _ := ex.sol.Check([]*Term{c}, nil)
	if d := time.Since(t0); ex.eng.SlowMs > 0 && d > time.Duration(ex.eng.SlowMs)*time.Millisecond {
		fmt.Fprintf(os.Stderr, "SLOW %v %v at %s in %s: %.200s\n", d, r, ex.pos(), ex.fnName(), c.String())
	}
	if r == Unknown {
		ex.res.Unknowns++
	}
	return r
}

func (ex *Exec) replaying() bool { return len(ex.trace) < len(ex.prefix) }

// branch decides a symbolic condition, forking when both sides are feasible.
func (ex *Exec) branch(c *Term) bool {
	if c.IsConst() {
		return c.Val != 0
	}
	if ex.inInit > 0 {
		panic(poisonPanic{"symbolic branch in init"})
	}
	if ex.replaying() {
		d := ex.prefix[len(ex.trace)]
		if d.Kind != dBranch {
			panic(engineErr("replay divergence: expected branch, got kind %d at %s", d.Kind, ex.pos()))
		}
		ex.trace = append(ex.trace, d)
		if !d.Forced {
			if d.Taken {
				ex.assume(c)
			} else {
				ex.assume(ex.st.Not(c))
			}
		}
		return d.Taken
	}
	rT := ex.check(c)
	if rT == Unsat {
		ex.trace = append(ex.trace, Decision{Kind: dBranch, Taken: false, Forced: true})
		return false
	}
	nc := ex.st.Not(c)
	rF := ex.check(nc)
	if rF == Unsat {
		ex.trace = append(ex.trace, Decision{Kind: dBranch, Taken: true, Forced: true})
		return true
	}
	alt := make([]Decision, len(ex.trace)+1)
	copy(alt, ex.trace)
	alt[len(ex.trace)] = Decision{Kind: dBranch, Taken: false}
	ex.eng.push(alt)
	ex.trace = append(ex.trace, Decision{Kind: dBranch, Taken: true})
	ex.assume(c)
	return true
}

// concretize forks over the feasible values of t within [lo,hi] (signed view).
// Values outside the range end the path as "bound" (recorded as outside the claim).
func (ex *Exec) concretize(t *Term, lo, hi int64, what string) int64 {
	if t.IsConst() {
		return t.Signed()
	}
	if ex.inInit > 0 {
		panic(poisonPanic{"symbolic concretize in init"})
	}
	st := ex.st
	for {
		if ex.replaying() {
			d := ex.prefix[len(ex.trace)]
			if d.Kind != dConc {
				panic(engineErr("replay divergence: expected conc at %s", ex.pos()))
			}
			ex.trace = append(ex.trace, d)
			eq := st.Eq(t, st.Const(t.W, uint64(d.Val)))
			if d.Taken {
				if !d.Forced {
					ex.assume(eq)
				}
				return d.Val
			}
			ex.assume(st.Not(eq))
			continue
		}
		inRange := st.And(st.Sle(st.Const(t.W, uint64(lo)), t), st.Sle(t, st.Const(t.W, uint64(hi))))
		v, ok := ex.modelValue(t, inRange)
		if !ok {
			// no value inside the range: the remaining values lie outside the bound
			ex.res.Truncated = append(ex.res.Truncated, what)
			panic(pathEnd{"bound"})
		}
		eq := st.Eq(t, st.Const(t.W, uint64(v)))
		// alternative: t != v (only if feasible)
		if ex.check(st.Not(eq)) == Unsat {
			ex.trace = append(ex.trace, Decision{Kind: dConc, Taken: true, Val: v, Forced: true})
			return v
		}
		alt := make([]Decision, len(ex.trace)+1)
		copy(alt, ex.trace)
		alt[len(ex.trace)] = Decision{Kind: dConc, Taken: false, Val: v}
		ex.eng.push(alt)
		ex.trace = append(ex.trace, Decision{Kind: dConc, Taken: true, Val: v})
		ex.assume(eq)
		return v
	}
}

var auxCounter int

func (ex *Exec) modelValue(t *Term, extra *Term) (int64, bool) {
	name := fmt.Sprintf("aux%d", len(ex.st.Vars))
	aux := ex.st.Var(name, t.W)
	r, m := ex.sol.Check([]*Term{extra, ex.st.Eq(aux, t)}, []*Term{aux})
	if r == Unknown {
		ex.res.Unknowns++
		ex.res.Truncated = append(ex.res.Truncated, "unknown during concretisation")
	}
	if r != Sat {
		return 0, false
	}
	c := ex.st.Const(t.W, m[name])
	return c.Signed(), true
}

// require is a proof obligation: cond must hold on every input reaching here.
func (ex *Exec) require(cond *Term, kind, msg string) {
	if cond.IsConst() && cond.Val != 0 {
		return
	}
	if ex.inInit > 0 {
		panic(poisonPanic{"obligation in init: " + msg})
	}
	if ex.replaying() {
		d := ex.prefix[len(ex.trace)]
		if d.Kind != dReq {
			panic(engineErr("replay divergence: expected req at %s", ex.pos()))
		}
		ex.trace = append(ex.trace, d)
		if !d.Taken {
			panic(pathEnd{"violated"})
		}
		ex.assume(cond)
		return
	}
	neg := ex.st.Not(cond)
	var r Result
	var model map[string]uint64
	if neg.IsConst() {
		r = Sat
		if ex.sol != nil {
			r, model = ex.sol.Check(nil, ex.ndVars)
		}
	} else {
		r, model = ex.sol.Check([]*Term{neg}, ex.ndVars)
	}
	switch r {
	case Unsat:
		ex.trace = append(ex.trace, Decision{Kind: dReq, Taken: true, Forced: true})
		ex.assume(cond)
		return
	case Unknown:
		ex.res.Unknowns++
		ex.res.Truncated = append(ex.res.Truncated, "unknown obligation: "+kind+": "+msg+" at "+ex.pos())
		ex.trace = append(ex.trace, Decision{Kind: dReq, Taken: true})
		ex.assume(cond)
		return
	}
	v := Violation{Kind: kind, Msg: msg, Pos: ex.pos(), Fn: ex.fnName()}
	if ex.overridePos != "" {
		v.Pos, v.Fn = ex.overridePos, ex.overrideFn
	}
	for _, nv := range ex.ndVars {
		v.Inputs = append(v.Inputs, model[nv.Name])
		v.Names = append(v.Names, nv.Name)
	}
	if ex.isConcrete {
		v.Inputs = append([]uint64(nil), ex.concrete...)
	}
	ex.res.Violations = append(ex.res.Violations, v)
	// continue under the assumption that the obligation held, if possible
	if cond.IsConst() || ex.check(cond) == Unsat {
		ex.trace = append(ex.trace, Decision{Kind: dReq, Taken: false})
		panic(pathEnd{"violated"})
	}
	ex.trace = append(ex.trace, Decision{Kind: dReq, Taken: true})
	ex.assume(cond)
}

// --- nondeterministic inputs ---

func (ex *Exec) fresh(kind string, w int) *Term {
	if ex.isConcrete {
		var v uint64
		if ex.concPos < len(ex.concrete) {
			v = ex.concrete[ex.concPos]
		}
		ex.concPos++
		return ex.st.Const(w, v)
	}
	name := fmt.Sprintf("nd%d_%s", len(ex.ndVars), kind)
	t := ex.st.Var(name, w)
	ex.ndVars = append(ex.ndVars, t)
	return t
}

// --- values & memory ---

func (ex *Exec) constValue(c *ssa.Const) Value {
	t := c.Type()
	if c.Value == nil {
		return ex.zero(t)
	}
	if _, ok := t.Underlying().(*types.Interface); ok {
		panic(engineErr("const of interface type"))
	}
	b, ok := t.Underlying().(*types.Basic)
	if !ok {
		// e.g. constant of type parameter type; treat via its value kind
		panic(engineErr("const of non-basic type %v", t))
	}
	switch {
	case b.Info()&types.IsBoolean != 0:
		return ex.st.Bool(constant.BoolVal(c.Value))
	case b.Info()&types.IsString != 0:
		if c.Value.Kind() == constant.String {
			return Str{S: constant.StringVal(c.Value)}
		}
		// string(rune) constant
		i, _ := constant.Int64Val(c.Value)
		return Str{S: string(rune(i))}
	case b.Info()&types.IsInteger != 0:
		w, _, _ := intWidth(t)
		if i, ok := constant.Int64Val(constant.ToInt(c.Value)); ok {
			return ex.st.Const(w, uint64(i))
		}
		u, _ := constant.Uint64Val(constant.ToInt(c.Value))
		return ex.st.Const(w, u)
	case b.Info()&types.IsFloat != 0:
		f, _ := constant.Float64Val(c.Value)
		return Float{f}
	case b.Info()&types.IsComplex != 0:
		re, _ := constant.Float64Val(constant.Real(c.Value))
		im, _ := constant.Float64Val(constant.Imag(c.Value))
		return Complex{complex(re, im)}
	}
	panic(engineErr("const %v of type %v", c, t))
}

func (ex *Exec) get(fr *frame, v ssa.Value) Value {
	switch v := v.(type) {
	case *ssa.Const:
		return ex.constValue(v)
	case *ssa.Global:
		return Ptr{ex.global(v)}
	case *ssa.Function:
		return v
	case *ssa.Builtin:
		return v
	}
	r, ok := fr.env[v]
	if !ok {
		panic(engineErr("get: no value for %s (%T) in %s", v.Name(), v, fr.fn))
	}
	return r
}

func (ex *Exec) load(t types.Type, p Value) Value {
	switch p := p.(type) {
	case Ptr:
		if p.P == nil {
			ex.require(ex.st.False, "nil", "nil pointer dereference")
		}
		v := *p.P
		if v == nil {
			v = ex.zero(t)
			if _, isSig := t.Underlying().(*types.Signature); !isSig {
				*p.P = v
			}
		}
		if _, ok := v.(Poison); ok {
			panic(engineErr("use of poisoned value (%s) at %s", v.(Poison).Why, ex.pos()))
		}
		return copyVal(v)
	case SymPtr:
		var r Value
		for i := len(p.C) - 1; i >= 0; i-- {
			c := p.C[i]
			v := *c.P
			if v == nil {
				v = ex.zero(t)
			}
			if r == nil {
				r = copyVal(v)
			} else {
				r = ex.iteVal(c.G, v, r)
			}
		}
		return r
	case UnsafePtr:
		return ex.load(t, p.V)
	}
	panic(engineErr("load from %T at %s", p, ex.pos()))
}

func (ex *Exec) store(p Value, v Value) {
	switch p := p.(type) {
	case Ptr:
		if p.P == nil {
			ex.require(ex.st.False, "nil", "nil pointer dereference (store)")
		}
		ex.storeInto(p.P, v)
	case SymPtr:
		for _, c := range p.C {
			old := *c.P
			if old == nil {
				// lazily-zero cell: materialise using the new value's shape
				switch nv := v.(type) {
				case *Term:
					old = ex.st.Const(nv.W, 0)
				default:
					panic(engineErr("symbolic store into lazy non-scalar cell"))
				}
			}
			ex.storeInto(c.P, ex.iteVal(c.G, v, old))
		}
	case UnsafePtr:
		ex.store(p.V, v)
	default:
		panic(engineErr("store to %T at %s", p, ex.pos()))
	}
}

// derefCell returns the cell of a concrete non-nil pointer, materialising lazy zeros.
func (ex *Exec) cellOf(p Value, elem types.Type) *Value {
	if sp, isSym := p.(SymPtr); isSym {
		p = ex.resolvePtr(sp)
	}
	pp, ok := p.(Ptr)
	if !ok {
		if up, ok := p.(UnsafePtr); ok {
			return ex.cellOf(up.V, elem)
		}
		panic(engineErr("cellOf %T at %s", p, ex.pos()))
	}
	if pp.P == nil {
		ex.require(ex.st.False, "nil", "nil pointer dereference")
	}
	if *pp.P == nil {
		*pp.P = ex.zero(elem)
	}
	return pp.P
}

// resolvePtr turns a symbolic pointer into a concrete one by forking on its guards.
func (ex *Exec) resolvePtr(sp SymPtr) Ptr {
	for i, c := range sp.C {
		if i == len(sp.C)-1 {
			ex.assume(c.G)
			return Ptr{c.P}
		}
		if ex.branch(c.G) {
			return Ptr{c.P}
		}
	}
	panic(pathEnd{"assume"})
}

func (ex *Exec) global(g *ssa.Global) *Value {
	if c, ok := ex.globals[g]; ok {
		return c
	}
	// make sure the defining package is initialised first
	if g.Pkg != nil {
		ex.ensureInit(g.Pkg)
		if c, ok := ex.globals[g]; ok {
			return c
		}
	}
	c := new(Value)
	*c = ex.zero(deref(g.Type()))
	ex.globals[g] = c
	return c
}

func deref(t types.Type) types.Type {
	if p, ok := t.Underlying().(*types.Pointer); ok {
		return p.Elem()
	}
	panic(engineErr("deref of non-pointer %v", t))
}

type poisonPanic struct{ why string }

// ensureInit lazily runs pkg's own initialisers (not those of its imports).
func (ex *Exec) ensureInit(pkg *ssa.Package) {
	if ex.initDone[pkg] {
		return
	}
	ex.initDone[pkg] = true
	// allocate all globals first
	var names []string
	for n, m := range pkg.Members {
		if _, ok := m.(*ssa.Global); ok {
			names = append(names, n)
		}
	}
	sort.Strings(names)
	for _, n := range names {
		g := pkg.Members[n].(*ssa.Global)
		if _, ok := ex.globals[g]; !ok {
			c := new(Value)
			*c = ex.zero(deref(g.Type()))
			ex.globals[g] = c
		}
	}
	if ex.eng.SkipInit[pkg.Pkg.Path()] {
		return
	}
	initFn := pkg.Func("init")
	if initFn == nil || initFn.Blocks == nil {
		return
	}
	ex.inInit++
	savedCur, savedFr, savedRoot := ex.cur, ex.curFr, ex.initRoot
	ex.initRoot = initFn
	func() {
		defer func() {
			ex.inInit--
			ex.initRoot = savedRoot
			ex.cur, ex.curFr = savedCur, savedFr
			if r := recover(); r != nil {
				switch r.(type) {
				case poisonPanic, targetPanic, *EngineError:
					// partial initialisation: remaining globals stay zero
					if ex.eng.Verbose {
						fmt.Printf("init of %s stopped early: %v\n", pkg.Pkg.Path(), r)
					}
				default:
					panic(r)
				}
			}
		}()
		ex.callSSA(initFn, nil, nil, nil)
	}()
}

// --- frames ---

func (ex *Exec) call(fn Value, args []Value, site ssa.Instruction, caller *frame) Value {
	switch f := fn.(type) {
	case *ssa.Function:
		return ex.callSSA(f, args, nil, caller)
	case *Closure:
		return ex.callSSA(f.Fn, args, f.Env, caller)
	case *ssa.Builtin:
		return ex.callBuiltin(f, args, site)
	case NativeFunc:
		return f(ex, args)
	case nil:
		ex.require(ex.st.False, "nil", "call of nil function")
	}
	panic(engineErr("call of %T at %s", fn, ex.pos()))
}

const maxDepth = 400

func (ex *Exec) callSSA(fn *ssa.Function, args []Value, env []Value, caller *frame) Value {
	info := ex.eng.fnInfo(fn)
	if info.intrinsic != nil {
		return info.intrinsic(ex, fn, args)
	}
	if info.redirect != nil {
		fn = info.redirect
	}
	if ex.inInit > 0 && fn.Name() == "init" && fn.Signature.Recv() == nil && fn.Parent() == nil && len(args) == 0 && fn != ex.initRoot {
		// dependency's init(): initialised lazily on first touch instead
		return nil
	}
	if fn.Blocks == nil {
		if ex.inInit > 0 {
			panic(poisonPanic{"external " + fn.String()})
		}
		panic(engineErr("unmodelled external function %s (called at %s)", fn.String(), ex.pos()))
	}
	if ex.depth > maxDepth {
		panic(engineErr("call depth exceeded in %s", fn))
	}
	ex.res.Fns[info.name]++
	fr := &frame{fn: fn, env: make(map[ssa.Value]Value, 16), caller: caller}
	for i, p := range fn.Params {
		fr.env[p] = args[i]
	}
	for i, fv := range fn.FreeVars {
		fr.env[fv] = env[i]
	}
	fr.block = fn.Blocks[0]
	ex.depth++
	savedCur, savedFr := ex.cur, ex.curFr
	defer func() {
		ex.depth--
		ex.cur, ex.curFr = savedCur, savedFr
	}()
	ex.curFr = fr
	ex.runFrame(fr)
	return fr.result
}

// runFrame executes fr to completion, handling target panics and recover.
func (ex *Exec) runFrame(fr *frame) {
	defer func() {
		r := recover()
		if r == nil {
			return
		}
		tp, ok := r.(targetPanic)
		if !ok {
			panic(r) // pathEnd, engine errors...: propagate untouched
		}
		fr.panicking = true
		fr.panicVal = tp
		ex.curFr = fr
		ex.runDefers(fr)
		// recovered: continue at the Recover block if any
		if fr.fn.Recover != nil {
			fr.block = fr.fn.Recover
			fr.prev = nil
			ex.runFrame(fr)
			return
		}
		// no named results: return zero values
		fr.result = ex.zeroResults(fr.fn)
	}()
	for fr.block != nil {
		ex.runBlock(fr)
	}
}

func (ex *Exec) zeroResults(fn *ssa.Function) Value {
	res := fn.Signature.Results()
	switch res.Len() {
	case 0:
		return nil
	case 1:
		return ex.zero(res.At(0).Type())
	}
	return ex.zero(res)
}

func (ex *Exec) runDefers(fr *frame) {
	for d := fr.defers; d != nil; d = fr.defers {
		fr.defers = d.tail
		ex.runDefer(fr, d)
	}
	if fr.panicking {
		panic(fr.panicVal)
	}
}

func (ex *Exec) runDefer(fr *frame, d *deferred) {
	ok := false
	defer func() {
		if !ok {
			r := recover()
			if tp, isT := r.(targetPanic); isT {
				fr.panicking = true
				fr.panicVal = tp
				return
			}
			panic(r)
		}
	}()
	ex.cur = d.site
	ex.call(d.fn, d.args, d.site, fr)
	ok = true
}

func (ex *Exec) runBlock(fr *frame) {
	b := fr.block
	// phis
	if fr.prev != nil {
		idx := -1
		for i, p := range b.Preds {
			if p == fr.prev {
				idx = i
				break
			}
		}
		var vals []Value
		var phis []*ssa.Phi
		for _, in := range b.Instrs {
			phi, ok := in.(*ssa.Phi)
			if !ok {
				break
			}
			phis = append(phis, phi)
			vals = append(vals, ex.get(fr, phi.Edges[idx]))
		}
		for i, phi := range phis {
			fr.env[phi] = vals[i]
		}
	}
	for _, in := range b.Instrs {
		if _, ok := in.(*ssa.Phi); ok {
			continue
		}
		ex.steps++
		if ex.steps > ex.eng.MaxSteps {
			ex.cur, ex.curFr = in, fr
			where := ex.fnName()
			if fr.caller != nil {
				where += " <- " + fr.caller.fn.String()
			}
			ex.res.Truncated = append(ex.res.Truncated, "step budget exhausted in "+where+" at "+ex.pos())
			panic(pathEnd{"budget"})
		}
		ex.cur = in
		ex.curFr = fr
		ex.lastInstr, ex.lastFr = in, fr
		if ex.visit(fr, in) {
			return
		}
	}
	panic(engineErr("block fell through in %s", fr.fn))
}

func (ex *Exec) prepareCall(fr *frame, c *ssa.CallCommon) (Value, []Value) {
	v := ex.get(fr, c.Value)
	var fn Value
	var args []Value
	if c.Method == nil {
		fn = v
	} else {
		recv, ok := v.(Iface)
		if !ok {
			panic(engineErr("invoke on %T at %s", v, ex.pos()))
		}
		if recv.T == nil {
			ex.require(ex.st.False, "nil", "method "+c.Method.Name()+" invoked on nil interface")
		}
		f := ex.eng.Prog.LookupMethod(recv.T, c.Method.Pkg(), c.Method.Name())
		if f == nil {
			panic(engineErr("no method %s on %v", c.Method.Name(), recv.T))
		}
		fn = f
		args = append(args, recv.V)
	}
	for _, a := range c.Args {
		args = append(args, ex.get(fr, a))
	}
	return fn, args
}

// visit executes one instruction; it returns true when control left the block.
func (ex *Exec) visit(fr *frame, instr ssa.Instruction) bool {
	st := ex.st
	switch in := instr.(type) {
	case *ssa.DebugRef:
	case *ssa.UnOp:
		fr.env[in] = ex.unop(in, ex.get(fr, in.X))
	case *ssa.BinOp:
		fr.env[in] = ex.binop(in.Op, in.X.Type(), ex.get(fr, in.X), ex.get(fr, in.Y), in.Y.Type())
	case *ssa.Call:
		fn, args := ex.prepareCall(fr, &in.Call)
		r := ex.call(fn, args, in, fr)
		ex.cur, ex.curFr = in, fr
		fr.env[in] = r
	case *ssa.ChangeInterface:
		fr.env[in] = ex.get(fr, in.X)
	case *ssa.ChangeType:
		fr.env[in] = ex.get(fr, in.X)
	case *ssa.Convert:
		fr.env[in] = ex.conv(in.Type(), in.X.Type(), ex.get(fr, in.X))
	case *ssa.MultiConvert:
		fr.env[in] = ex.conv(in.Type(), in.X.Type(), ex.get(fr, in.X))
	case *ssa.SliceToArrayPointer:
		x := ex.get(fr, in.X).(Slice)
		n := int(deref(in.Type()).Underlying().(*types.Array).Len())
		if n > len(x.A) {
			ex.require(st.False, "bounds", "slice to array pointer: length too short")
		}
		if n == 0 && !x.NonNil {
			fr.env[in] = Ptr{}
			break
		}
		// An array cell aliasing the slice's backing store.
		var cell Value = Array(x.A[:n:n])
		fr.env[in] = Ptr{&cell}
	case *ssa.MakeInterface:
		fr.env[in] = Iface{T: in.X.Type(), V: ex.get(fr, in.X)}
	case *ssa.Extract:
		fr.env[in] = ex.get(fr, in.Tuple).(Tuple)[in.Index]
	case *ssa.Slice:
		fr.env[in] = ex.sliceOp(fr, in)
	case *ssa.Return:
		switch len(in.Results) {
		case 0:
		case 1:
			fr.result = ex.get(fr, in.Results[0])
		default:
			res := make(Tuple, len(in.Results))
			for i, r := range in.Results {
				res[i] = ex.get(fr, r)
			}
			fr.result = res
		}
		fr.block = nil
		return true
	case *ssa.RunDefers:
		ex.runDefers(fr)
	case *ssa.Panic:
		v := ex.get(fr, in.X)
		panic(ex.newPanic(v, ex.panicString(v)))
	case *ssa.Send:
		ch := ex.get(fr, in.Chan).(*Chan)
		if ch == nil {
			panic(engineErr("send on nil channel (would block forever)"))
		}
		ch.Buf = append(ch.Buf, ex.get(fr, in.X))
	case *ssa.Store:
		ex.store(ex.get(fr, in.Addr), ex.get(fr, in.Val))
	case *ssa.If:
		c := ex.get(fr, in.Cond).(*Term)
		succ := 1
		if ex.branch(c) {
			succ = 0
		}
		fr.prev, fr.block = fr.block, fr.block.Succs[succ]
		return true
	case *ssa.Jump:
		fr.prev, fr.block = fr.block, fr.block.Succs[0]
		return true
	case *ssa.Defer:
		fn, args := ex.prepareCall(fr, &in.Call)
		if in.DeferStack != nil {
			panic(engineErr("defer with explicit DeferStack (range-over-func) unsupported"))
		}
		fr.defers = &deferred{fn: fn, args: args, site: in, tail: fr.defers}
	case *ssa.Go:
		// sequentialised: the goroutine body runs to completion at the spawn point
		fn, args := ex.prepareCall(fr, &in.Call)
		ex.call(fn, args, in, fr)
		ex.cur, ex.curFr = in, fr
	case *ssa.MakeChan:
		fr.env[in] = &Chan{}
	case *ssa.Alloc:
		c := new(Value)
		*c = ex.zero(deref(in.Type()))
		fr.env[in] = Ptr{c}
	case *ssa.MakeSlice:
		ln := ex.idxTerm(ex.get(fr, in.Len), in.Len.Type())
		cp := ln
		if in.Cap != in.Len {
			cp = ex.idxTerm(ex.get(fr, in.Cap), in.Cap.Type())
		}
		zero := st.Const(ln.W, 0)
		ex.require(st.Sle(zero, ln), "makeslice", "makeslice: len out of range (negative)")
		n := ex.concretize(ln, 0, ex.eng.MaxAlloc, "make([]T, n) with n > MaxAlloc")
		c := n
		if cp != ln {
			ex.require(st.Sle(ln, cp), "makeslice", "makeslice: cap out of range")
			c = ex.concretize(cp, 0, ex.eng.MaxAlloc, "make([]T, n, c) with c > MaxAlloc")
		}
		if int64(int(c)) != c || c > 1<<31 {
			panic(engineErr("makeslice too large: %d", c))
		}
		elemT := in.Type().Underlying().(*types.Slice).Elem()
		a := make([]Value, c)
		if c <= 4096 {
			for i := range a {
				a[i] = ex.zero(elemT)
			}
		}
		fr.env[in] = Slice{A: a[:n], NonNil: true}
	case *ssa.MakeMap:
		fr.env[in] = &Map{}
	case *ssa.Range:
		fr.env[in] = ex.rangeIter(ex.get(fr, in.X), in.X.Type())
	case *ssa.Next:
		fr.env[in] = ex.get(fr, in.Iter).(iterator).next(ex)
	case *ssa.FieldAddr:
		x := ex.get(fr, in.X)
		sT := deref(in.X.Type())
		switch p := x.(type) {
		case SymPtr:
			var out SymPtr
			for _, c := range p.C {
				if *c.P == nil {
					*c.P = ex.zero(sT)
				}
				out.C = append(out.C, symCand{c.G, &(*c.P).(Struct)[in.Field]})
			}
			fr.env[in] = out
		default:
			cell := ex.cellOf(x, sT)
			s, ok := (*cell).(Struct)
			if !ok {
				panic(engineErr("FieldAddr on %T at %s", *cell, ex.pos()))
			}
			fr.env[in] = Ptr{&s[in.Field]}
		}
	case *ssa.Field:
		fr.env[in] = copyVal(ex.get(fr, in.X).(Struct)[in.Field])
	case *ssa.IndexAddr:
		fr.env[in] = ex.indexAddr(fr, in)
	case *ssa.Index:
		fr.env[in] = ex.indexOp(fr, in)
	case *ssa.Lookup:
		fr.env[in] = ex.lookup(in, ex.get(fr, in.X), ex.get(fr, in.Index))
	case *ssa.MapUpdate:
		m := ex.get(fr, in.Map).(*Map)
		if m == nil {
			panic(ex.newPanic(nil, "assignment to entry in nil map"))
		}
		ex.mapInsert(m, ex.get(fr, in.Key), ex.get(fr, in.Value))
	case *ssa.TypeAssert:
		fr.env[in] = ex.typeAssert(in, ex.get(fr, in.X))
	case *ssa.MakeClosure:
		var env []Value
		for _, b := range in.Bindings {
			env = append(env, ex.get(fr, b))
		}
		fr.env[in] = &Closure{Fn: in.Fn.(*ssa.Function), Env: env}
	case *ssa.Select:
		fr.env[in] = ex.selectOp(fr, in)
	default:
		panic(engineErr("unhandled instruction %T in %s", instr, fr.fn))
	}
	return false
}

func (ex *Exec) panicString(v Value) string {
	switch x := v.(type) {
	case Iface:
		if x.T == nil {
			return "nil"
		}
		if s, ok := x.V.(Str); ok {
			if c, ok := s.Concrete(); ok {
				return c
			}
			return "<symbolic string>"
		}
		// error value: try its Error() result if it is a simple errorString
		if p, ok := x.V.(Ptr); ok && p.P != nil {
			if s, ok := (*p.P).(Struct); ok && len(s) >= 1 {
				if str, ok := s[0].(Str); ok {
					if c, ok := str.Concrete(); ok {
						return c
					}
				}
			}
		}
		return fmt.Sprintf("panic value of type %v", x.T)
	}
	return fmt.Sprintf("%T", v)
}

// --- indexing ---

func (ex *Exec) idxTerm(v Value, t types.Type) *Term {
	it := v.(*Term)
	_, signed, _ := intWidth(t)
	if it.W < 64 {
		if signed {
			return ex.st.SExt(it, 64)
		}
		return ex.st.ZExt(it, 64)
	}
	return it
}

// boundsCheck requires 0 <= idx < n and returns the concrete index if idx is constant.
func (ex *Exec) boundsCheck(idx *Term, n int, what string) {
	st := ex.st
	if idx.IsConst() {
		v := idx.Signed()
		if v < 0 || v >= int64(n) {
			ex.require(st.False, "bounds", fmt.Sprintf("%s: index %d out of range [0,%d)", what, v, n))
		}
		return
	}
	ex.require(st.Ult(idx, st.Const(64, uint64(n))), "bounds", fmt.Sprintf("%s: index out of range [0,%d)", what, n))
}

func (ex *Exec) symIndex(cells []Value, idx *Term) Value {
	if idx.IsConst() {
		return Ptr{&cells[idx.Val]}
	}
	var sp SymPtr
	st := ex.st
	for i := range cells {
		g := st.Eq(idx, st.Const(64, uint64(i)))
		if g == st.False {
			continue
		}
		sp.C = append(sp.C, symCand{g, &cells[i]})
	}
	if len(sp.C) == 1 {
		return Ptr{sp.C[0].P}
	}
	if len(sp.C) > ex.eng.MaxSymIndex {
		// too many candidates: fork on the value instead
		v := ex.concretize(idx, 0, int64(len(cells)-1), "symbolic index")
		return Ptr{&cells[v]}
	}
	return sp
}

func (ex *Exec) indexAddr(fr *frame, in *ssa.IndexAddr) Value {
	x := ex.get(fr, in.X)
	idx := ex.idxTerm(ex.get(fr, in.Index), in.Index.Type())
	switch xv := x.(type) {
	case Slice:
		ex.boundsCheck(idx, len(xv.A), "slice")
		return ex.symIndex(xv.A, idx)
	case Ptr, UnsafePtr:
		aT := deref(in.X.Type())
		cell := ex.cellOf(x, aT)
		arr, ok := (*cell).(Array)
		if !ok {
			panic(engineErr("IndexAddr on %T", *cell))
		}
		ex.boundsCheck(idx, len(arr), "array")
		return ex.symIndex(arr, idx)
	case SymPtr:
		// pointer to array chosen symbolically, then indexed
		aT := deref(in.X.Type())
		var out SymPtr
		for _, c := range xv.C {
			if *c.P == nil {
				*c.P = ex.zero(aT)
			}
			arr := (*c.P).(Array)
			ex.boundsCheck(idx, len(arr), "array")
			sub := ex.symIndex(arr, idx)
			switch s := sub.(type) {
			case Ptr:
				out.C = append(out.C, symCand{c.G, s.P})
			case SymPtr:
				for _, sc := range s.C {
					out.C = append(out.C, symCand{ex.st.And(c.G, sc.G), sc.P})
				}
			}
		}
		return out
	}
	panic(engineErr("IndexAddr on %T at %s", x, ex.pos()))
}

func (ex *Exec) indexOp(fr *frame, in *ssa.Index) Value {
	x := ex.get(fr, in.X)
	idx := ex.idxTerm(ex.get(fr, in.Index), in.Index.Type())
	st := ex.st
	switch xv := x.(type) {
	case Array:
		ex.boundsCheck(idx, len(xv), "array")
		elemT := in.X.Type().Underlying().(*types.Array).Elem()
		p := ex.symIndex(xv, idx)
		return ex.load(elemT, p)
	case Str:
		n := xv.Len()
		ex.boundsCheck(idx, n, "string")
		if idx.IsConst() {
			return ex.strByte(xv, int(idx.Val))
		}
		var r *Term = st.Const(8, 0)
		for i := n - 1; i >= 0; i-- {
			r = st.Ite(st.Eq(idx, st.Const(64, uint64(i))), ex.strByte(xv, i), r)
		}
		return r
	}
	panic(engineErr("Index on %T", x))
}

func (ex *Exec) sliceOp(fr *frame, in *ssa.Slice) Value {
	x := ex.get(fr, in.X)
	st := ex.st
	var lo, hi, mx *Term
	if in.Low != nil {
		lo = ex.idxTerm(ex.get(fr, in.Low), in.Low.Type())
	}
	if in.High != nil {
		hi = ex.idxTerm(ex.get(fr, in.High), in.High.Type())
	}
	if in.Max != nil {
		mx = ex.idxTerm(ex.get(fr, in.Max), in.Max.Type())
	}
	var ln, cp int
	var backing []Value
	var str Str
	isStr := false
	nonNil := true
	switch xv := x.(type) {
	case Slice:
		ln, cp = len(xv.A), cap(xv.A)
		backing = xv.A
		nonNil = xv.NonNil
	case Str:
		isStr = true
		str = xv
		ln, cp = xv.Len(), xv.Len()
	case Ptr, UnsafePtr, SymPtr:
		aT := deref(in.X.Type())
		cell := ex.cellOf(x, aT)
		arr := (*cell).(Array)
		ln, cp = len(arr), len(arr)
		backing = arr
	default:
		panic(engineErr("Slice on %T at %s", x, ex.pos()))
	}
	if lo == nil {
		lo = st.Const(64, 0)
	}
	if hi == nil {
		hi = st.Const(64, uint64(ln))
	}
	limit := cp
	if isStr {
		limit = ln
	}
	if mx == nil {
		// 0 <= lo <= hi <= cap
		ex.require(st.Ule(hi, st.Const(64, uint64(limit))), "bounds", fmt.Sprintf("slice bounds out of range [:hi] with capacity %d", limit))
		ex.require(st.Ule(lo, hi), "bounds", "slice bounds out of range [lo:hi] (lo > hi)")
	} else {
		ex.require(st.Ule(mx, st.Const(64, uint64(cp))), "bounds", fmt.Sprintf("slice bounds out of range [::max] with capacity %d", cp))
		ex.require(st.Ule(hi, mx), "bounds", "slice bounds out of range [:hi:max]")
		ex.require(st.Ule(lo, hi), "bounds", "slice bounds out of range [lo:hi:]")
	}
	l := int(ex.concretize(lo, 0, int64(limit), "slice low bound"))
	h := int(ex.concretize(hi, int64(l), int64(limit), "slice high bound"))
	if isStr {
		if str.Sym == nil {
			return Str{S: str.S[l:h]}
		}
		return mkStr(str.Sym[l:h])
	}
	m := cp
	if mx != nil {
		m = int(ex.concretize(mx, int64(h), int64(cp), "slice max bound"))
	}
	if backing == nil {
		return Slice{NonNil: nonNil}
	}
	return Slice{A: backing[l:h:m], NonNil: nonNil}
}

// --- type assertion ---

func (ex *Exec) typeAssert(in *ssa.TypeAssert, x Value) Value {
	itf, ok := x.(Iface)
	if !ok {
		panic(engineErr("TypeAssert on %T", x))
	}
	var okv bool
	var v Value
	if _, isIface := in.AssertedType.Underlying().(*types.Interface); isIface {
		if itf.T != nil {
			okv = ex.implements(itf.T, in.AssertedType.Underlying().(*types.Interface))
		}
		v = itf
	} else {
		okv = itf.T != nil && types.Identical(itf.T, in.AssertedType)
		v = itf.V
	}
	if in.CommaOk {
		if !okv {
			v = ex.zero(in.AssertedType)
		}
		return Tuple{v, ex.st.Bool(okv)}
	}
	if !okv {
		tn := "nil"
		if itf.T != nil {
			tn = itf.T.String()
		}
		panic(ex.newPanic(nil, fmt.Sprintf("interface conversion: interface is %s, not %s", tn, in.AssertedType)))
	}
	return v
}

func (ex *Exec) implements(t types.Type, it *types.Interface) bool {
	if it.NumMethods() == 0 {
		return true
	}
	ms := ex.eng.Prog.MethodSets.MethodSet(t)
	for i := 0; i < it.NumMethods(); i++ {
		m := it.Method(i)
		sel := ms.Lookup(m.Pkg(), m.Name())
		if sel == nil {
			return false
		}
		if !types.Identical(sel.Type(), m.Type()) {
			return false
		}
	}
	return true
}

// --- select / channels (sequentialised) ---

func (ex *Exec) selectOp(fr *frame, in *ssa.Select) Value {
	chosen := -1
	var recv Value
	recvOk := false
	for i, s := range in.States {
		ch, _ := ex.get(fr, s.Chan).(*Chan)
		if ch == nil {
			continue
		}
		if s.Dir == types.RecvOnly {
			if len(ch.Buf) > 0 {
				chosen = i
				recv = ch.Buf[0]
				ch.Buf = ch.Buf[1:]
				recvOk = true
				break
			}
			if ch.Closed {
				chosen = i
				break
			}
		} else {
			ch.Buf = append(ch.Buf, ex.get(fr, s.Send))
			chosen = i
			break
		}
	}
	if chosen < 0 && in.Blocking {
		panic(engineErr("select would block forever in sequentialised model at %s", ex.pos()))
	}
	r := Tuple{ex.st.Const(64, uint64(int64(chosen))), ex.st.Bool(recvOk)}
	for i, s := range in.States {
		if s.Dir == types.RecvOnly {
			if i == chosen && recvOk {
				r = append(r, recv)
			} else {
				r = append(r, ex.zero(s.Chan.Type().Underlying().(*types.Chan).Elem()))
			}
		}
	}
	return r
}

// --- iterators ---

type iterator interface {
	next(ex *Exec) Value
}

type mapIter struct {
	m *Map
	i int
	kT, vT types.Type
}

func (it *mapIter) next(ex *Exec) Value {
	for it.m != nil && it.i < len(it.m.E) {
		e := it.m.E[it.i]
		it.i++
		if ex.branch(e.P) {
			return Tuple{ex.st.True, copyVal(e.K), copyVal(e.V)}
		}
	}
	return Tuple{ex.st.False, ex.zero(it.kT), ex.zero(it.vT)}
}

type strIter struct {
	s Str
	i int
}

func (it *strIter) next(ex *Exec) Value {
	st := ex.st
	n := it.s.Len()
	if it.i >= n {
		return Tuple{st.False, st.Const(64, 0), st.Const(32, 0)}
	}
	idx := it.i
	if it.s.Sym == nil {
		// concrete: native decoding
		r, size := decodeRune(it.s.S[idx:])
		it.i += size
		return Tuple{st.True, st.Const(64, uint64(idx)), st.Const(32, uint64(r))}
	}
	b := it.s.Sym[idx]
	if ex.branch(st.Ult(b, st.Const(8, 0x80))) {
		it.i++
		return Tuple{st.True, st.Const(64, uint64(idx)), st.ZExt(b, 32)}
	}
	// non-ASCII lead byte: exact range-based decoder (see utf8.go)
	r, size := ex.decodeRuneSym(it.s.Sym[idx:])
	it.i += size
	return Tuple{st.True, st.Const(64, uint64(idx)), r}
}

func decodeRune(s string) (rune, int) {
	return utf8.DecodeRuneInString(s)
}

func (ex *Exec) rangeIter(x Value, t types.Type) Value {
	switch xv := x.(type) {
	case *Map:
		mt := t.Underlying().(*types.Map)
		return &mapIter{m: xv, kT: mt.Key(), vT: mt.Elem()}
	case Str:
		return &strIter{s: xv}
	}
	panic(engineErr("range over %T", x))
}

var _ = token.NoPos
