package sym

// VfsRedirects maps file-system entry points to the vfsx model (harness/internal/vfsx).
func VfsRedirects() map[string]string {
	const v = "github.com/gokrazy/rsync/internal/vfsx."
	const rn = "github.com/google/renameio/v2."
	m := map[string]string{
		"(*os.Root).Lstat":     v + "RootLstat",
		"(*os.Root).Stat":      v + "RootStat",
		"(*os.Root).Open":      v + "RootOpen",
		"(*os.Root).OpenFile":  v + "RootOpenFile",
		"(*os.Root).Remove":    v + "RootRemove",
		"(*os.Root).RemoveAll": v + "RootRemoveAll",
		"(*os.Root).Mkdir":     v + "RootMkdir",
		"(*os.Root).MkdirAll":  v + "RootMkdirAll",
		"(*os.Root).Chmod":     v + "RootChmod",
		"(*os.Root).Chtimes":   v + "RootChtimes",
		"(*os.Root).Lchown":    v + "RootLchown",
		"(*os.Root).Chown":     v + "RootLchown",
		"(*os.Root).Readlink":  v + "RootReadlink",
		"(*os.Root).Symlink":   v + "RootSymlink",
		"(*os.Root).Rename":    v + "RootRename",
		"(*os.Root).OpenRoot":  v + "RootOpenRoot",
		"(*os.Root).Name":      v + "RootName",
		"(*os.Root).Close":     v + "RootClose",
		"(*os.Root).FS":        v + "RootFS",
		"(*os.File).Stat":      v + "FileStat",
		"(*os.File).Close":     v + "FileClose",
		"(*os.File).Read":      v + "FileRead",
		"(*os.File).ReadAt":    v + "FileReadAt",
		"(*os.File).Seek":      v + "FileSeek",
		"(*os.File).Write":     v + "FileWrite",
		"(*os.File).Name":      v + "FileName",
		"(*os.File).Fd":        v + "FileFd",
		"(*os.File).Sync":      v + "FileSync",
		"(*os.File).Chmod":     v + "FileChmod",
		rn + "WithRoot":        v + "WithRoot",
		rn + "NewPendingFile":  v + "NewPendingFile",
		rn + "WithReplaceOnClose":      v + "WithReplaceOnClose",
		rn + "WithPermissions":         v + "WithPermissions",
		rn + "WithStaticPermissions":   v + "WithPermissions",
		rn + "WithExistingPermissions": v + "WithExistingPermissions",
		rn + "IgnoreUmask":             v + "WithExistingPermissions",
		rn + "WithTempDir":             v + "WithTempDir",
		"(*" + rn + "PendingFile).Close": v + "PendingClose",
		rn + "SymlinkRoot":     v + "SymlinkRoot",
		"(*" + rn + "PendingFile).Cleanup":                v + "PendingCleanup",
		"(*" + rn + "PendingFile).CloseAtomicallyReplace": v + "PendingCloseAtomicallyReplace",
		"golang.org/x/sys/unix.Mknodat":  v + "Mknodat",
		"golang.org/x/sys/unix.Mkfifoat": v + "Mkfifoat",
		"golang.org/x/sys/unix.Socket":   v + "Socket",
		"golang.org/x/sys/unix.Bind":     v + "Bind",
		"golang.org/x/sys/unix.Close":    v + "UnixClose",
		"os.MkdirAll":  v + "OsMkdirAll",
		"os.OpenRoot":  v + "OsOpenRoot",
		"os.Remove":    v + "OsRemove",
		"os.RemoveAll": v + "OsRemoveAll",
		"os.Chmod":     v + "OsChmod",
		"os.Chtimes":   v + "OsChtimes",
		"os.Lchown":    v + "OsLchown",
		"os.Symlink":   v + "OsSymlink",
		"os.Rename":    v + "OsRename",
		"os.Mkdir":     v + "OsMkdir",
		"os.Open":      v + "OsOpen",
		"os.Lstat":     v + "OsLstat",
		"os.Stat":      v + "OsStat",
		"os.Readlink":  v + "OsReadlink",
		"os.ReadFile":  v + "OsReadFile",
		"os.Create":    v + "OsCreate",
		"os.WriteFile": v + "OsWriteFile",
		"os.OpenFile":  v + "OsOpenFile",
	}
	return m
}

// SSHRedirects replaces x/crypto/ssh entry points by the stand-ins in harness/internal/anonssh.
func SSHRedirects() map[string]string {
	const a = "github.com/gokrazy/rsync/internal/anonssh."
	const s = "golang.org/x/crypto/ssh."
	return map[string]string{
		s + "NewServerConn":                 a + "VNewServerConn",
		"(*" + s + "ServerConfig).AddHostKey": a + "VAddHostKey",
		s + "FingerprintSHA256":             a + "VFingerprint",
		s + "DiscardRequests":               a + "VDiscardRequests",
		"(*" + s + "Request).Reply":           a + "VReply",
		s + "Unmarshal":                     a + "VUnmarshal",
		"github.com/google/shlex.Split":     a + "VSplit",
	}
}

// SSHExecRedirects marks the continuations an SSH session's command line may or may not reach.
func SSHExecRedirects() map[string]string {
	const m = "github.com/gokrazy/rsync/internal/maincmd."
	const r = "github.com/gokrazy/rsync/rsyncd."
	return map[string]string{
		"(*" + r + "Server).HandleDaemonConn":   m + "VDaemonConn",
		"(*" + r + "Server).InternalHandleConn": m + "VInternalHandleConn",
		m + "clientMain":                         m + "VClientMain",
		m + "namespace":                          m + "VNamespace",
	}
}
