package sym

import (
	"os"
	"bufio"
	"fmt"
	"io"
	"os/exec"
	"strconv"
	"strings"
	"time"
)

// Solver is one long-lived SMT solver process (z3 -in, or cvc5 --incremental).
type Solver struct {
	Bin      string
	cmd      *exec.Cmd
	in       io.WriteCloser
	out      *bufio.Reader
	emitted  map[int]bool // term IDs defined in current context
	declared map[string]bool
	seq      int
	TimeoutMs int

	// statistics
	Queries  int
	Sat      int
	Unsat    int
	Unknown  int
	Time     time.Duration
	Log      io.Writer // optional: full SMT-LIB transcript

	// Fresh mode: every check is sent as a self-contained problem after (reset),
	// so that z3 can use its non-incremental bit-vector tactic.
	Fresh   bool
	history []string // declarations, definitions and assertions of the current path
	lines   chan string
	Restarts int
	SetLogic string
	DumpUnknown string

	// Alt is a second, non-incremental solver process used when the incremental
	// one gives up within QuickMs: z3's incremental core is much weaker on hard
	// bit-vector arithmetic than its one-shot tactic.
	Died    int
	Alt     *Solver
	QuickMs int
	AltUsed int
}

func NewSolver(bin string, timeoutMs int) (*Solver, error) {
	s := &Solver{Bin: bin, TimeoutMs: timeoutMs}
	if err := s.start(); err != nil {
		return nil, err
	}
	return s, nil
}

func (s *Solver) start() error {
	var args []string
	switch {
	case strings.Contains(s.Bin, "cvc5"):
		args = []string{"--incremental", "--lang=smt2", "--produce-models", fmt.Sprintf("--tlimit-per=%d", s.TimeoutMs)}
	default:
		args = []string{"-in", "-smt2"}
	}
	s.cmd = exec.Command(s.Bin, args...)
	var err error
	s.in, err = s.cmd.StdinPipe()
	if err != nil {
		return err
	}
	op, err := s.cmd.StdoutPipe()
	if err != nil {
		return err
	}
	s.cmd.Stderr = s.cmd.Stdout
	s.out = bufio.NewReaderSize(op, 1<<16)
	if err := s.cmd.Start(); err != nil {
		return err
	}
	s.emitted = make(map[int]bool)
	s.declared = make(map[string]bool)
	ch := make(chan string, 1024)
	s.lines = ch
	rd := s.out
	go func() {
		for {
			line, err := rd.ReadString('\n')
			if err != nil {
				close(ch)
				return
			}
			ch <- strings.TrimRight(line, "\r\n")
		}
	}()
	s.preamble()
	return nil
}

func (s *Solver) preamble() {
	if !strings.Contains(s.Bin, "cvc5") {
		to := s.TimeoutMs
		if s.Alt != nil && s.QuickMs > 0 {
			to = s.QuickMs
		}
		s.send(fmt.Sprintf("(set-option :timeout %d)", to))
		s.send("(set-option :produce-models true)")
	} else {
		s.send("(set-logic QF_BV)")
	}
}

func (s *Solver) Close() {
	if s.Alt != nil {
		s.Alt.Close()
	}
	if s.cmd != nil {
		s.in.Close()
		s.cmd.Process.Kill()
		s.cmd.Wait()
		s.cmd = nil
	}
}

func (s *Solver) rec(line string) {
	s.history = append(s.history, line)
	if s.Fresh {
		return
	}
	s.send(line)
}

// restart kills a stuck solver process and brings a new one to the same assertion state.
func (s *Solver) restart() {
	s.Close()
	s.Restarts++
	em, de := s.emitted, s.declared
	if err := s.start(); err != nil {
		panic(&SolverError{Msg: "restart failed: " + err.Error()})
	}
	s.emitted, s.declared = em, de
	if !s.Fresh {
		for _, h := range s.history {
			s.send(h)
		}
	}
}

func (s *Solver) send(line string) {
	if s.Log != nil {
		fmt.Fprintln(s.Log, line)
	}
	io.WriteString(s.in, line)
	io.WriteString(s.in, "\n")
}

// Reset drops all assertions and definitions (new path).
func (s *Solver) Reset() {
	s.history = s.history[:0]
	s.emitted = make(map[int]bool)
	s.declared = make(map[string]bool)
	if s.Fresh {
		return
	}
	s.send("(reset)")
	s.preamble()
}

// define makes sure t (and its sub-terms) are defined in the solver context.
func (s *Solver) define(t *Term) {
	if t.Op == OpConst {
		return
	}
	if t.Op == OpVar {
		if !s.declared[t.Name] {
			s.declared[t.Name] = true
			s.rec(fmt.Sprintf("(declare-const %s %s)", t.Name, sortOf(t.W)))
		}
		return
	}
	if s.emitted[t.ID] {
		return
	}
	// iterative post-order to avoid deep recursion
	type fr struct {
		t *Term
		i int
	}
	stack := []fr{{t, 0}}
	for len(stack) > 0 {
		f := &stack[len(stack)-1]
		if f.i < len(f.t.Args) {
			c := f.t.Args[f.i]
			f.i++
			if c.Op == OpConst {
				continue
			}
			if c.Op == OpVar {
				if !s.declared[c.Name] {
					s.declared[c.Name] = true
					s.rec(fmt.Sprintf("(declare-const %s %s)", c.Name, sortOf(c.W)))
				}
				continue
			}
			if !s.emitted[c.ID] {
				stack = append(stack, fr{c, 0})
			}
			continue
		}
		if !s.emitted[f.t.ID] {
			s.emitted[f.t.ID] = true
			s.rec(fmt.Sprintf("(define-fun t%d () %s %s)", f.t.ID, sortOf(f.t.W), f.t.body()))
		}
		stack = stack[:len(stack)-1]
	}
}

// Assert adds a permanent (for this path) constraint.
func (s *Solver) Assert(t *Term) {
	s.define(t)
	s.rec(fmt.Sprintf("(assert %s)", t.ref()))
}

// Result of a check.
type Result int

const (
	Unsat Result = iota
	Sat
	Unknown
)

func (r Result) String() string { return [...]string{"unsat", "sat", "unknown"}[r] }

// SolverError is raised (as panic) when the solver output contains an error.
type SolverError struct{ Msg string }

func (e *SolverError) Error() string { return "solver error: " + e.Msg }

// readUntilMarker collects output lines up to the echo marker; ok=false on watchdog timeout.
func (s *Solver) readUntilMarker(marker string, limit time.Duration) ([]string, bool) {
	var lines []string
	timer := time.NewTimer(limit)
	defer timer.Stop()
	for {
		select {
		case line, open := <-s.lines:
			if !open {
				// the solver process exited (crash or kill): the caller restarts it
				s.Died++
				return lines, false
			}
			if line == marker || line == "\""+marker+"\"" {
				return lines, true
			}
			lines = append(lines, line)
		case <-timer.C:
			return lines, false
		}
	}
}

// Check decides satisfiability of (asserted constraints ∧ extra...). When
// wantModel is non-nil and the answer is sat, values of those variables are returned.
func (s *Solver) Check(extra []*Term, wantModel []*Term) (Result, map[string]uint64) {
	for _, e := range extra {
		s.define(e)
	}
	s.seq++
	marker := "DONE-" + strconv.Itoa(s.seq)
	start := time.Now()
	if s.Fresh {
		s.send("(reset)")
		s.preamble()
		if s.SetLogic != "" {
			s.send("(set-logic " + s.SetLogic + ")")
		}
		var sb strings.Builder
		for _, h := range s.history {
			sb.WriteString(h)
			sb.WriteString("\n")
		}
		if s.Log != nil {
			io.WriteString(s.Log, sb.String())
		}
		io.WriteString(s.in, sb.String())
	} else {
		s.send("(push 1)")
	}
	for _, e := range extra {
		s.send(fmt.Sprintf("(assert %s)", e.ref()))
	}
	s.send("(check-sat)")
	s.send(fmt.Sprintf("(echo \"%s\")", marker))
	limitMs := s.TimeoutMs
	if s.Alt != nil && s.QuickMs > 0 {
		limitMs = s.QuickMs
	}
	lines, okRead := s.readUntilMarker(marker, time.Duration(limitMs)*time.Millisecond+5*time.Second)
	s.Queries++
	if !okRead {
		// the solver ignored its own timeout: kill it, restart, report unknown
		s.restart()
		if s.Alt != nil {
			r, m := s.altCheck(extra, wantModel)
			s.Time += time.Since(start)
			s.count(r)
			return r, m
		}
		s.Time += time.Since(start)
		s.Unknown++
		return Unknown, nil
	}
	res := Unknown
	canceled := false
	for _, l := range lines {
		if strings.HasPrefix(l, "(error") {
			if strings.Contains(l, "cancel") && s.Alt != nil {
				// the incremental solver hit its short time limit in the middle of a command
				canceled = true
				continue
			}
			panic(&SolverError{Msg: l})
		}
		switch l {
		case "sat":
			res = Sat
		case "unsat":
			res = Unsat
		case "unknown", "timeout":
			res = Unknown
		}
	}
	if canceled {
		res = Unknown
		s.restart()
		r, m := s.altCheck(extra, wantModel)
		s.Time += time.Since(start)
		s.count(r)
		return r, m
	}
	if res == Unknown && s.Alt != nil {
		if !s.Fresh {
			s.send("(pop 1)")
		}
		r, m := s.altCheck(extra, wantModel)
		if r == Unknown && s.DumpUnknown != "" {
			s.dumpQuery(extra)
		}
		s.Time += time.Since(start)
		s.count(r)
		return r, m
	}
	if res == Unknown && s.DumpUnknown != "" {
		s.dumpQuery(extra)
	}
	var model map[string]uint64
	if res == Sat && len(wantModel) > 0 {
		model = make(map[string]uint64)
		var names []string
		for _, v := range wantModel {
			if s.declared[v.Name] {
				names = append(names, v.Name)
			}
		}
		for i := 0; i < len(names); i += 200 {
			j := min(i+200, len(names))
			s.seq++
			m2 := "DONE-" + strconv.Itoa(s.seq)
			s.send("(get-value (" + strings.Join(names[i:j], " ") + "))")
			s.send(fmt.Sprintf("(echo \"%s\")", m2))
			ls, okm := s.readUntilMarker(m2, 60*time.Second)
			if !okm {
				panic(&SolverError{Msg: "model retrieval timed out"})
			}
			parseModel(strings.Join(ls, " "), model)
		}
	}
	if !s.Fresh {
		s.send("(pop 1)")
	}
	s.Time += time.Since(start)
	s.count(res)
	return res, model
}

func (s *Solver) count(res Result) {
	switch res {
	case Sat:
		s.Sat++
	case Unsat:
		s.Unsat++
	default:
		s.Unknown++
	}
}

// altCheck re-decides the current query with the one-shot solver.
func (s *Solver) altCheck(extra []*Term, wantModel []*Term) (Result, map[string]uint64) {
	a := s.Alt
	a.history, a.emitted, a.declared = s.history, s.emitted, s.declared
	s.AltUsed++
	q0 := a.Queries
	r, m := a.Check(extra, wantModel)
	if r == Unknown {
		// one retry on a fresh process with twice the time
		a.restart()
		old := a.TimeoutMs
		a.TimeoutMs = 2 * old
		r, m = a.Check(extra, wantModel)
		a.TimeoutMs = old
	}
	_ = q0
	// definitions made for extra terms were recorded in the shared history/maps
	s.history, s.emitted, s.declared = a.history, a.emitted, a.declared
	return r, m
}

// dumpQuery writes the current query as a self-contained SMT-LIB file (for offline triage).
func (s *Solver) dumpQuery(extra []*Term) {
	var sb strings.Builder
	for _, h := range s.history {
		sb.WriteString(h)
		sb.WriteString("\n")
	}
	for _, e := range extra {
		fmt.Fprintf(&sb, "(assert %s)\n", e.ref())
	}
	sb.WriteString("(check-sat)\n")
	os.WriteFile(fmt.Sprintf("%s/unknown-%d-%d.smt2", s.DumpUnknown, os.Getpid(), s.seq), []byte(sb.String()), 0o644)
}

// parseModel parses "((name #x..) (name2 true) ...)".
func parseModel(txt string, out map[string]uint64) {
	if strings.Contains(txt, "(error") {
		panic(&SolverError{Msg: txt})
	}
	toks := strings.FieldsFunc(txt, func(r rune) bool { return r == '(' || r == ')' || r == ' ' || r == '\t' })
	for i := 0; i+1 < len(toks); i += 2 {
		name, val := toks[i], toks[i+1]
		var v uint64
		switch {
		case val == "true":
			v = 1
		case val == "false":
			v = 0
		case strings.HasPrefix(val, "#x"):
			v, _ = strconv.ParseUint(val[2:], 16, 64)
		case strings.HasPrefix(val, "#b"):
			v, _ = strconv.ParseUint(val[2:], 2, 64)
		case val == "_": // (_ bvN w) form: tokens "_" "bvN" "w"
			if i+3 < len(toks) && strings.HasPrefix(toks[i+2], "bv") {
				v, _ = strconv.ParseUint(toks[i+2][2:], 10, 64)
				i += 2
			}
		}
		out[name] = v
	}
}
