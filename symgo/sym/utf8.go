package sym

import (
	"unicode/utf8"

	"golang.org/x/tools/go/ssa"
)

// decodeRuneSym is an exact model of utf8.DecodeRune(InString) on symbolic bytes.
// It follows the UTF-8 well-formedness table with range comparisons (forking on
// them) instead of the standard library's 256-entry lookup table.
func (ex *Exec) decodeRuneSym(bs []*Term) (r *Term, size int) {
	r, size, _ = ex.decodeRuneSymV(bs)
	return
}

// decodeRuneSymV additionally reports whether the decoded sequence was well-formed.
func (ex *Exec) decodeRuneSymV(bs []*Term) (r *Term, size int, valid bool) {
	st := ex.st
	c8 := func(v uint64) *Term { return st.Const(8, v) }
	in := func(b *Term, lo, hi uint64) bool {
		return ex.branch(st.And(st.Ule(c8(lo), b), st.Ule(b, c8(hi))))
	}
	errR := st.Const(32, uint64(utf8.RuneError))
	if len(bs) == 0 {
		return errR, 0, false
	}
	allConst := true
	for i := 0; i < len(bs) && i < 4; i++ {
		if !bs[i].IsConst() {
			allConst = false
		}
	}
	if allConst {
		raw := make([]byte, 0, 4)
		for i := 0; i < len(bs) && i < 4; i++ {
			raw = append(raw, byte(bs[i].Val))
		}
		rr, sz := utf8.DecodeRune(raw)
		return st.Const(32, uint64(rr)), sz, !(rr == utf8.RuneError && sz <= 1)
	}
	b0 := bs[0]
	if ex.branch(st.Ult(b0, c8(0x80))) {
		return st.ZExt(b0, 32), 1, true
	}
	z := func(b *Term, maskv uint64) *Term { return st.ZExt(st.Bin(OpBAnd, b, c8(maskv)), 32) }
	shl := func(t *Term, k uint64) *Term { return st.Bin(OpShl, t, st.Const(32, k)) }
	or := func(a, b *Term) *Term { return st.Bin(OpBOr, a, b) }
	cont := func(i int) bool { return len(bs) > i && in(bs[i], 0x80, 0xBF) }
	switch {
	case in(b0, 0xC2, 0xDF):
		if !cont(1) {
			return errR, 1, false
		}
		return or(shl(z(b0, 0x1F), 6), z(bs[1], 0x3F)), 2, true
	case in(b0, 0xE0, 0xEF):
		if len(bs) < 2 {
			return errR, 1, false
		}
		lo, hi := uint64(0x80), uint64(0xBF)
		if ex.branch(st.Eq(b0, c8(0xE0))) {
			lo = 0xA0
		} else if ex.branch(st.Eq(b0, c8(0xED))) {
			hi = 0x9F
		}
		if !in(bs[1], lo, hi) || !cont(2) {
			return errR, 1, false
		}
		return or(or(shl(z(b0, 0x0F), 12), shl(z(bs[1], 0x3F), 6)), z(bs[2], 0x3F)), 3, true
	case in(b0, 0xF0, 0xF4):
		if len(bs) < 2 {
			return errR, 1, false
		}
		lo, hi := uint64(0x80), uint64(0xBF)
		if ex.branch(st.Eq(b0, c8(0xF0))) {
			lo = 0x90
		} else if ex.branch(st.Eq(b0, c8(0xF4))) {
			hi = 0x8F
		}
		if !in(bs[1], lo, hi) || !cont(2) || !cont(3) {
			return errR, 1, false
		}
		return or(or(or(shl(z(b0, 0x07), 18), shl(z(bs[1], 0x3F), 12)), shl(z(bs[2], 0x3F), 6)), z(bs[3], 0x3F)), 4, true
	}
	return errR, 1, false
}

func (ex *Exec) validUTF8(bs []*Term) *Term {
	for i := 0; i < len(bs); {
		_, n, ok := ex.decodeRuneSymV(bs[i:])
		if !ok {
			return ex.st.False
		}
		i += n
	}
	return ex.st.True
}

func init() {
	intrinsics["unicode/utf8.ValidString"] = func(ex *Exec, fn *ssa.Function, args []Value) Value {
		return ex.validUTF8(ex.strBytes(args[0].(Str)))
	}
	intrinsics["unicode/utf8.Valid"] = func(ex *Exec, fn *ssa.Function, args []Value) Value {
		return ex.validUTF8(sliceBytes(ex, args[0].(Slice)))
	}
	intrinsics["unicode/utf8.DecodeRuneInString"] = func(ex *Exec, fn *ssa.Function, args []Value) Value {
		r, n := ex.decodeRuneSym(ex.strBytes(args[0].(Str)))
		return Tuple{r, ex.st.Const(64, uint64(n))}
	}
	intrinsics["unicode/utf8.DecodeRune"] = func(ex *Exec, fn *ssa.Function, args []Value) Value {
		r, n := ex.decodeRuneSym(sliceBytes(ex, args[0].(Slice)))
		return Tuple{r, ex.st.Const(64, uint64(n))}
	}
}
