package sym

import (
	"fmt"
	"os"
	"path/filepath"
	"regexp"
	"strings"
)

// Decls are the bodiless harness primitives; a copy is placed in every harness package.
const Decls = `
func nd_bool() bool
func nd_u8() uint8
func nd_u16() uint16
func nd_u32() uint32
func nd_u64() uint64
func nd_i32() int32
func nd_i64() int64
func nd_int() int
func nd_bytes(n int) []byte
func nd_string(n int) string
func vassume(c bool)
func vassert(c bool, msg string)
func vreach(label string)
func vsymbolic() bool
func vconc(x, lo, hi int) int
func vlog(v any)
func vsample(s string)
func vnote(s string)
`

var pkgRe = regexp.MustCompile(`(?m)^package\s+(\w+)`)

// HarnessOverlay maps harness files under hdir/<pkgrel>/*.go into repo/<pkgrel>/zz_verif_*.go
// (symbolic flavour: files tagged verifreplay are skipped by the build tag itself).
func HarnessOverlay(repo, hdir string, pkgs []string) (map[string][]byte, error) {
	ov := make(map[string][]byte)
	for _, rel := range pkgs {
		dir := filepath.Join(hdir, rel)
		ents, err := os.ReadDir(dir)
		if err != nil {
			return nil, err
		}
		pkgName := ""
		for _, e := range ents {
			if !strings.HasSuffix(e.Name(), ".go") {
				continue
			}
			b, err := os.ReadFile(filepath.Join(dir, e.Name()))
			if err != nil {
				return nil, err
			}
			if m := pkgRe.FindSubmatch(b); m != nil && pkgName == "" && !strings.HasSuffix(string(m[1]), "_test") {
				pkgName = string(m[1])
			}
			ov[filepath.Join(repo, rel, "zz_verif_"+e.Name())] = b
		}
		if pkgName == "" {
			return nil, fmt.Errorf("no harness files in %s", dir)
		}
		decl := "//go:build !verifreplay\n\npackage " + pkgName + "\n" + Decls
		ov[filepath.Join(repo, rel, "zz_verif_decls.go")] = []byte(decl)
	}
	return ov, nil
}
