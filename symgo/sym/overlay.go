package sym

import (
	"bytes"
	"fmt"
	"os"
	"path/filepath"
	"regexp"
	"strings"
)

// Decls are the bodiless harness primitives; a copy is placed in every harness package.
const Decls = `
func nd_bool() bool
func nd_u8() uint8
func nd_u16() uint16
func nd_u32() uint32
func nd_u64() uint64
func nd_i32() int32
func nd_i64() int64
func nd_int() int
func nd_bytes(n int) []byte
func nd_string(n int) string
func nd_range(lo, hi int) int
func vassume(c bool)
func vassert(c bool, msg string)
func vreach(label string)
func vsymbolic() bool
func vconc(x, lo, hi int) int
func vlog(v any)
func vsample(s string)
func vnote(s string)
func vparam(name string) int
`

var pkgRe = regexp.MustCompile(`(?m)^package\s+(\w+)`)

// HarnessPackages lists the package directories (relative to the repo root) that have harness files.
func HarnessPackages(hdir string) ([]string, error) {
	var out []string
	err := filepath.Walk(hdir, func(p string, info os.FileInfo, err error) error {
		if err != nil {
			return err
		}
		if info.IsDir() && strings.HasPrefix(info.Name(), "_") {
			return filepath.SkipDir
		}
		if !info.IsDir() && strings.HasSuffix(p, ".go") {
			rel, _ := filepath.Rel(hdir, filepath.Dir(p))
			for _, o := range out {
				if o == rel {
					return nil
				}
			}
			out = append(out, rel)
		}
		return nil
	})
	return out, err
}

// HarnessOverlay maps harness files under hdir/<pkgrel>/*.go into repo/<pkgrel>/zz_verif_*.go,
// adds the shared helpers from hdir/_common (package name substituted) and the
// bodiless primitive declarations. native selects the replay flavour instead
// (bodies that pop values from a vector; see native.go).
func HarnessOverlay(repo, hdir string, pkgs []string, native bool) (map[string][]byte, error) {
	ov := make(map[string][]byte)
	common, _ := os.ReadDir(filepath.Join(hdir, "_common"))
	for _, rel := range pkgs {
		dir := filepath.Join(hdir, rel)
		ents, err := os.ReadDir(dir)
		if err != nil {
			return nil, err
		}
		pkgName := ""
		for _, e := range ents {
			if !strings.HasSuffix(e.Name(), ".go") {
				continue
			}
			b, err := os.ReadFile(filepath.Join(dir, e.Name()))
			if err != nil {
				return nil, err
			}
			if m := pkgRe.FindSubmatch(b); m != nil && pkgName == "" && !strings.HasSuffix(string(m[1]), "_test") {
				pkgName = string(m[1])
			}
			ov[filepath.Join(repo, rel, "zz_verif_"+e.Name())] = b
		}
		if pkgName == "" {
			return nil, fmt.Errorf("no harness files in %s", dir)
		}
		if _, err := os.Stat(filepath.Join(dir, ".nocommon")); err != nil {
			for _, c := range common {
				if !strings.HasSuffix(c.Name(), ".go") {
					continue
				}
				b, err := os.ReadFile(filepath.Join(hdir, "_common", c.Name()))
				if err != nil {
					return nil, err
				}
				b = bytes.Replace(b, []byte("package PKG"), []byte("package "+pkgName), 1)
				ov[filepath.Join(repo, rel, "zz_verif_common_"+c.Name())] = b
			}
		}
		if native {
			ov[filepath.Join(repo, rel, "zz_verif_native.go")] = []byte(strings.Replace(NativeDecls, "package PKG", "package "+pkgName, 1))
			ov[filepath.Join(repo, rel, "zz_verif_native_test.go")] = []byte(strings.Replace(NativeTest, "package PKG", "package "+pkgName, 1))
		} else {
			decl := "package " + pkgName + "\n" + Decls
			ov[filepath.Join(repo, rel, "zz_verif_decls.go")] = []byte(decl)
		}
	}
	return ov, nil
}
