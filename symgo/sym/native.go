package sym

// NativeDecls gives the harness primitives bodies for native replay: inputs are
// popped from a JSON vector named by $VERIF_REPLAY.
const NativeDecls = `package PKG

import (
	"encoding/json"
	"fmt"
	"os"
)

type verifReplayFile struct {
	Harness string             ` + "`json:\"harness\"`" + `
	Params  map[string]int     ` + "`json:\"params\"`" + `
	Inputs  []uint64           ` + "`json:\"inputs\"`" + `
	Cases   []verifReplayFile  ` + "`json:\"cases\"`" + `
}

var verifReplay verifReplayFile
var verifPos int
var VerifFailures []string
var VerifReached = map[string]bool{}

func verifLoad() {
	b, err := os.ReadFile(os.Getenv("VERIF_REPLAY"))
	if err != nil {
		panic(err)
	}
	if err := json.Unmarshal(b, &verifReplay); err != nil {
		panic(err)
	}
	verifPos = 0
	VerifFailures = nil
}

func verifNext() uint64 {
	if verifPos < len(verifReplay.Inputs) {
		v := verifReplay.Inputs[verifPos]
		verifPos++
		return v
	}
	verifPos++
	return 0
}

type verifAssumeFailed struct{}

func nd_bool() bool   { return verifNext()&1 != 0 }
func nd_u8() uint8    { return uint8(verifNext()) }
func nd_u16() uint16  { return uint16(verifNext()) }
func nd_u32() uint32  { return uint32(verifNext()) }
func nd_u64() uint64  { return verifNext() }
func nd_i32() int32   { return int32(verifNext()) }
func nd_i64() int64   { return int64(verifNext()) }
func nd_int() int     { return int(verifNext()) }
func nd_bytes(n int) []byte {
	b := make([]byte, n)
	for i := range b {
		b[i] = byte(verifNext())
	}
	return b
}
func nd_string(n int) string { return string(nd_bytes(n)) }
func nd_range(lo, hi int) int { return lo + int(uint64(uint8(verifNext()))%uint64(hi-lo+1)) }
func vassume(c bool) {
	if !c {
		panic(verifAssumeFailed{})
	}
}
func vassert(c bool, msg string) {
	if !c {
		VerifFailures = append(VerifFailures, "assert: "+msg)
	}
}
func vreach(label string)      { VerifReached[label] = true }
func vsymbolic() bool          { return false }
func vconc(x, lo, hi int) int  { return x }
func vlog(v any)               { fmt.Fprintln(os.Stderr, "vlog:", v) }
func vsample(s string)         {}
func vnote(s string)           {}
func vparam(name string) int   { return verifReplay.Params[name] }
`

// NativeTest runs one harness natively on the replay vector and reports failures.
const NativeTest = `package PKG

import (
	"fmt"
	"os"
	"testing"
)

func TestVerifReplay(t *testing.T) {
	verifLoad()
	if len(verifReplay.Cases) > 0 {
		cases := verifReplay.Cases
		for i, c := range cases {
			verifReplay = c
			verifPos = 0
			VerifFailures = nil
			verdict := "PASS"
			func() {
				defer func() {
					if r := recover(); r != nil {
						if _, ok := r.(verifAssumeFailed); ok {
							verdict = "ASSUME"
							return
						}
						verdict = "FAIL"
					}
				}()
				verifHarnesses[c.Harness]()
			}()
			if verdict == "PASS" && len(VerifFailures) > 0 {
				verdict = "FAIL"
			}
			fmt.Printf("VERIF-CASE %d %s\n", i, verdict)
		}
		return
	}
	h, ok := verifHarnesses[verifReplay.Harness]
	if !ok {
		t.Fatalf("unknown harness %q", verifReplay.Harness)
	}
	func() {
		defer func() {
			if r := recover(); r != nil {
				if _, ok := r.(verifAssumeFailed); ok {
					fmt.Println("VERIF-REPLAY: assumption-failed")
					return
				}
				VerifFailures = append(VerifFailures, fmt.Sprintf("panic: %v", r))
			}
		}()
		h()
	}()
	for _, f := range VerifFailures {
		fmt.Println("VERIF-REPLAY: FAIL", f)
	}
	if len(VerifFailures) == 0 {
		fmt.Println("VERIF-REPLAY: PASS")
	}
	_ = os.Stdout
}
`
