package sym

import (
	"fmt"
	"os"
	"runtime/debug"
	"sort"
	"strings"
	"sync"
	"time"

	"golang.org/x/tools/go/packages"
	"golang.org/x/tools/go/ssa"
	"golang.org/x/tools/go/ssa/ssautil"
)

type Intrinsic func(ex *Exec, fn *ssa.Function, args []Value) Value

type fnInfoT struct {
	name      string
	intrinsic Intrinsic
	redirect  *ssa.Function
}

// Engine holds the loaded program and exploration state shared by workers.
type Engine struct {
	Prog *ssa.Program
	Pkgs map[string]*ssa.Package

	MaxSteps    int
	MaxAlloc    int64
	MaxSymIndex int
	MaxPaths    int
	SkipInit    map[string]bool
	Verbose     bool
	SolverBin   string
	TimeoutMs   int
	Redirects   map[string]string // callee -> replacement function (full names)
	LogSMT      string            // directory for per-worker SMT transcripts ("" = off)
	Params      map[string]int    // concrete instance parameters read by vparam()
	Fresh       bool
	NoAlt       bool
	QuickMs     int
	// StopOn, if set, is consulted for every violation; returning true ends the exploration early.
	StopOn   func(Violation) bool
	Deadline time.Time // zero = none; exploration stops (inconclusive) when passed
	SlowMs      int
	SetLogic    string

	infoMu sync.Mutex
	info   map[*ssa.Function]*fnInfoT

	workMu  sync.Mutex
	work    [][]Decision
	active  int
	cond    *sync.Cond
	stopped bool
}

// Load type-checks and builds SSA for the given package patterns in dir, with overlay files.
func Load(dir string, patterns []string, overlay map[string][]byte, tags string) (*Engine, error) {
	if !strings.Contains(os.Getenv("PATH"), "/opt/veriftools/go1.26.8/bin") {
		os.Setenv("PATH", "/opt/veriftools/go1.26.8/bin:"+os.Getenv("PATH"))
	}
	cfg := &packages.Config{
		Mode:    packages.LoadAllSyntax,
		Dir:     dir,
		Overlay: overlay,
		Env:     append(os.Environ(), "GOFLAGS=-mod=mod", "GOPROXY=off", "GOTOOLCHAIN=local", "CGO_ENABLED=0", "PATH=/opt/veriftools/go1.26.8/bin:"+os.Getenv("PATH")),
	}
	if tags != "" {
		cfg.BuildFlags = []string{"-tags=" + tags}
	}
	pkgs, err := packages.Load(cfg, patterns...)
	if err != nil {
		return nil, err
	}
	var errs []string
	packages.Visit(pkgs, nil, func(p *packages.Package) {
		for _, e := range p.Errors {
			errs = append(errs, e.Error())
		}
	})
	if len(errs) > 0 {
		return nil, fmt.Errorf("load errors:\n%s", strings.Join(errs, "\n"))
	}
	prog, _ := ssautil.AllPackages(pkgs, ssa.InstantiateGenerics)
	prog.Build()
	e := &Engine{
		Prog:        prog,
		Pkgs:        make(map[string]*ssa.Package),
		MaxSteps:    20_000_000,
		MaxAlloc:    64,
		MaxSymIndex: 300,
		MaxPaths:    2_000_000,
		SkipInit:    map[string]bool{},
		SolverBin:   "z3",
		TimeoutMs:   30000,
		Redirects:   map[string]string{},
		Params:      map[string]int{},
		QuickMs:     300,
		info:        make(map[*ssa.Function]*fnInfoT),
	}
	for _, p := range prog.AllPackages() {
		e.Pkgs[p.Pkg.Path()] = p
	}
	e.cond = sync.NewCond(&e.workMu)
	return e, nil
}

func (e *Engine) lookupFunc(pkg, name string) *ssa.Function {
	p := e.Pkgs[pkg]
	if p == nil {
		panic(engineErr("package %s not loaded", pkg))
	}
	f := p.Func(name)
	if f == nil {
		panic(engineErr("function %s.%s not found", pkg, name))
	}
	return f
}

// FindFunc resolves "pkgpath.Name" or "(*pkgpath.T).Method" / "(pkgpath.T).Method".
func (e *Engine) FindFunc(full string) *ssa.Function {
	if strings.HasPrefix(full, "(") {
		end := strings.Index(full, ").")
		recv := full[1:end]
		meth := full[end+2:]
		ptr := strings.HasPrefix(recv, "*")
		recv = strings.TrimPrefix(recv, "*")
		dot := strings.LastIndex(recv, ".")
		pkg, tn := recv[:dot], recv[dot+1:]
		p := e.Pkgs[pkg]
		if p == nil {
			return nil
		}
		t := p.Type(tn)
		if t == nil {
			return nil
		}
		var typ = t.Type()
		if ptr {
			typ = typesNewPointer(typ)
		}
		return e.Prog.LookupMethod(typ, p.Pkg, meth)
	}
	dot := strings.LastIndex(full, ".")
	if dot < 0 {
		return nil
	}
	p := e.Pkgs[full[:dot]]
	if p == nil {
		return nil
	}
	return p.Func(full[dot+1:])
}

func (e *Engine) fnInfo(fn *ssa.Function) *fnInfoT {
	e.infoMu.Lock()
	defer e.infoMu.Unlock()
	if fi, ok := e.info[fn]; ok {
		return fi
	}
	name := fn.String()
	if o := fn.Origin(); o != nil {
		name = o.String()
	}
	fi := &fnInfoT{name: fn.String()}
	if in, ok := intrinsics[name]; ok {
		fi.intrinsic = in
	} else if fn.Blocks == nil && fn.Synthetic == "" {
		short := fn.Name()
		if in, ok := harnessIntrinsics[short]; ok {
			fi.intrinsic = in
		}
	}
	if tgt, ok := e.Redirects[name]; ok && fi.intrinsic == nil {
		t := e.FindFunc(tgt)
		if t == nil {
			panic(engineErr("redirect target %s not found (for %s)", tgt, name))
		}
		fi.redirect = t
	}
	e.info[fn] = fi
	return fi
}

// SetRedirects installs the union of the given redirect tables (and forgets cached decisions).
func (e *Engine) SetRedirects(tables ...map[string]string) {
	e.infoMu.Lock()
	defer e.infoMu.Unlock()
	e.Redirects = map[string]string{}
	for _, t := range tables {
		for k, v := range t {
			e.Redirects[k] = v
		}
	}
	e.info = make(map[*ssa.Function]*fnInfoT)
}

func (e *Engine) push(p []Decision) {
	e.workMu.Lock()
	e.work = append(e.work, p)
	e.workMu.Unlock()
	e.cond.Signal()
}

func (e *Engine) pop() ([]Decision, bool) {
	e.workMu.Lock()
	defer e.workMu.Unlock()
	for {
		if e.stopped {
			return nil, false
		}
		if n := len(e.work); n > 0 {
			p := e.work[n-1]
			e.work = e.work[:n-1]
			e.active++
			return p, true
		}
		if e.active == 0 {
			e.cond.Broadcast()
			return nil, false
		}
		e.cond.Wait()
	}
}

func (e *Engine) done() {
	e.workMu.Lock()
	e.active--
	if e.active == 0 && len(e.work) == 0 {
		e.cond.Broadcast()
	}
	e.workMu.Unlock()
}

// Summary aggregates all paths of one harness run.
type Summary struct {
	Harness     string
	Paths       int
	Ends        map[string]int
	Steps       int
	Violations  []Violation
	Reached     map[string]int
	Unknowns    int
	Truncated   map[string]int
	Fns         map[string]int
	Queries     int
	QSat        int
	QUnsat      int
	QUnknown    int
	SolverTime  time.Duration
	Wall        time.Duration
	EngineError string
	Samples     []string
	Solver      string
	Stopped     bool // exploration ended early at a reportable violation
}

func (s *Summary) merge(r *PathResult) {
	s.Paths++
	s.Ends[r.End]++
	s.Steps += r.Steps
	s.Violations = append(s.Violations, r.Violations...)
	for k := range r.Reached {
		s.Reached[k]++
	}
	s.Unknowns += r.Unknowns
	for _, t := range r.Truncated {
		s.Truncated[t]++
	}
	for k, v := range r.Fns {
		s.Fns[k] += v
	}
	if r.Sample != "" && len(s.Samples) < 8 {
		s.Samples = append(s.Samples, r.Sample)
	}
}

// Run explores all paths of the harness function with n workers.
func (e *Engine) Run(h *ssa.Function, workers int) *Summary {
	sum := &Summary{Harness: h.String(), Ends: map[string]int{}, Reached: map[string]int{}, Truncated: map[string]int{}, Fns: map[string]int{}, Solver: e.SolverBin}
	start := time.Now()
	e.workMu.Lock()
	e.work = [][]Decision{nil}
	e.active = 0
	e.stopped = false
	e.workMu.Unlock()
	var mu sync.Mutex
	var wg sync.WaitGroup
	for w := 0; w < workers; w++ {
		wg.Add(1)
		go func(w int) {
			defer wg.Done()
			sol, err := NewSolver(e.SolverBin, e.TimeoutMs)
			if err == nil && !e.Fresh && !e.NoAlt {
				alt, aerr := NewSolver(e.SolverBin, e.TimeoutMs)
				if aerr == nil {
					alt.Fresh = true
					sol.Alt = alt
					sol.QuickMs = e.QuickMs
					sol.Reset()
				}
			}
			if err == nil {
				sol.Fresh = e.Fresh
				sol.SetLogic = e.SetLogic
				sol.DumpUnknown = e.LogSMT
			}
			if err != nil {
				mu.Lock()
				sum.EngineError = err.Error()
				mu.Unlock()
				return
			}
			if e.LogSMT != "" {
				f, err := os.Create(fmt.Sprintf("%s/w%d.smt2", e.LogSMT, w))
				if err == nil {
					sol.Log = f
					defer f.Close()
				}
			}
			defer func() {
				mu.Lock()
				sum.Queries += sol.Queries
				sum.QSat += sol.Sat
				sum.QUnsat += sol.Unsat
				sum.QUnknown += sol.Unknown
				sum.SolverTime += sol.Time
				mu.Unlock()
				sol.Close()
			}()
			for {
				prefix, ok := e.pop()
				if !ok {
					return
				}
				res, eerr := e.runPath(h, prefix, sol, nil)
				mu.Lock()
				if eerr != "" && sum.EngineError == "" {
					sum.EngineError = eerr
				}
				if res != nil {
					sum.merge(res)
				}
				tooMany := sum.Paths >= e.MaxPaths
				stopV := false
				if res != nil && e.StopOn != nil {
					for _, v := range res.Violations {
						if e.StopOn(v) {
							stopV = true
						}
					}
				}
				if !e.Deadline.IsZero() && time.Now().After(e.Deadline) && sum.EngineError == "" {
					sum.EngineError = "instance time budget exceeded"
					eerr = sum.EngineError
				}
				if stopV {
					sum.Stopped = true
				}
				mu.Unlock()
				if stopV {
					e.done()
					e.workMu.Lock()
					e.stopped = true
					e.workMu.Unlock()
					e.cond.Broadcast()
					return
				}
				e.done()
				if eerr != "" || tooMany {
					e.workMu.Lock()
					e.stopped = true
					e.workMu.Unlock()
					e.cond.Broadcast()
					if tooMany {
						mu.Lock()
						if sum.EngineError == "" {
							sum.EngineError = "path budget exceeded"
						}
						mu.Unlock()
					}
					return
				}
			}
		}(w)
	}
	wg.Wait()
	sum.Wall = time.Since(start)
	sort.Slice(sum.Violations, func(i, j int) bool {
		a, b := sum.Violations[i], sum.Violations[j]
		if a.Pos != b.Pos {
			return a.Pos < b.Pos
		}
		return a.Msg < b.Msg
	})
	return sum
}

// RunConcrete executes the harness on a concrete input vector (translator validation).
func (e *Engine) RunConcrete(h *ssa.Function, inputs []uint64) (*PathResult, string) {
	return e.runPath(h, nil, nil, inputs)
}

func (e *Engine) runPath(h *ssa.Function, prefix []Decision, sol *Solver, concrete []uint64) (res *PathResult, engineError string) {
	ex := &Exec{
		eng:      e,
		st:       NewStore(),
		sol:      sol,
		prefix:   prefix,
		globals:  make(map[*ssa.Global]*Value),
		initDone: make(map[*ssa.Package]bool),
		hashes:   make(map[*Value]*hashState),
		userData: make(map[string]interface{}),
		res:      &PathResult{Reached: map[string]bool{}, Fns: map[string]int{}},
	}
	if concrete != nil || sol == nil {
		ex.isConcrete = true
		ex.concrete = concrete
	}
	if sol != nil {
		sol.Reset()
	}
	res = ex.res
	defer func() {
		res.Steps = ex.steps
		r := recover()
		if r == nil {
			return
		}
		switch p := r.(type) {
		case pathEnd:
			res.End = p.reason
		case targetPanic:
			// an uncaught panic of the program under test
			res.End = "panic"
			func() {
				defer func() {
					if r2 := recover(); r2 != nil {
						if pe, ok := r2.(pathEnd); ok {
							_ = pe
							return
						}
						engineError = fmt.Sprint(r2)
					}
				}()
				ex.overridePos, ex.overrideFn = p.pos, p.fn
				ex.require(ex.st.False, "panic", "uncaught panic: "+p.msg)
			}()
		case *EngineError:
			ex.cur, ex.curFr = ex.lastInstr, ex.lastFr
			engineError = p.Msg + " [in " + ex.fnName() + " at " + ex.pos() + "]"
			res = nil
		case *SolverError:
			engineError = p.Error()
			res = nil
		default:
			engineError = fmt.Sprintf("internal panic: %v\n%s", r, debug.Stack())
			res = nil
		}
	}()
	ex.callSSA(h, nil, nil, nil)
	res.End = "return"
	return
}
