// Package sym is a path-wise symbolic executor for go/ssa that discharges
// branch feasibility and proof obligations with an SMT solver.
package sym

import (
	"fmt"
	"math/bits"
	"strings"
)

// Op is a term constructor.
type Op uint8

const (
	OpConst Op = iota
	OpVar
	// bool
	OpNot
	OpAnd
	OpOr
	OpEq  // args of equal sort -> Bool
	OpIte // (cond, a, b) sort of a
	OpUlt
	OpUle
	OpSlt
	OpSle
	// bit-vector
	OpAdd
	OpSub
	OpMul
	OpUDiv
	OpURem
	OpSDiv
	OpSRem
	OpBAnd
	OpBOr
	OpBXor
	OpBNot
	OpNeg
	OpShl
	OpLShr
	OpAShr
	OpZExt    // to width W
	OpSExt    // to width W
	OpExtract // bits [Lo+W-1 : Lo]
	OpConcat  // hi, lo
)

var opNames = map[Op]string{
	OpNot: "not", OpAnd: "and", OpOr: "or", OpEq: "=", OpIte: "ite",
	OpUlt: "bvult", OpUle: "bvule", OpSlt: "bvslt", OpSle: "bvsle",
	OpAdd: "bvadd", OpSub: "bvsub", OpMul: "bvmul", OpUDiv: "bvudiv", OpURem: "bvurem",
	OpSDiv: "bvsdiv", OpSRem: "bvsrem", OpBAnd: "bvand", OpBOr: "bvor", OpBXor: "bvxor",
	OpBNot: "bvnot", OpNeg: "bvneg", OpShl: "bvshl", OpLShr: "bvlshr", OpAShr: "bvashr",
	OpConcat: "concat",
}

// Term is an immutable, hash-consed SMT term. W==0 means sort Bool,
// otherwise (_ BitVec W) with 1<=W<=64.
type Term struct {
	Op   Op
	W    int
	Args []*Term
	Val  uint64 // OpConst value (masked); OpExtract: low bit
	Name string // OpVar
	ID   int
}

// Store hash-conses terms for one path execution.
type Store struct {
	lin   map[int]*linForm
	tab   map[string]*Term
	next  int
	Vars  []*Term
	True  *Term
	False *Term
}

func NewStore() *Store {
	s := &Store{tab: make(map[string]*Term), lin: make(map[int]*linForm)}
	s.True = s.mk(&Term{Op: OpConst, W: 0, Val: 1})
	s.False = s.mk(&Term{Op: OpConst, W: 0, Val: 0})
	return s
}

func (s *Store) mk(t *Term) *Term {
	var sb strings.Builder
	fmt.Fprintf(&sb, "%d:%d:%d:%s", t.Op, t.W, t.Val, t.Name)
	for _, a := range t.Args {
		fmt.Fprintf(&sb, ",%d", a.ID)
	}
	k := sb.String()
	if o, ok := s.tab[k]; ok {
		return o
	}
	t.ID = s.next
	s.next++
	s.tab[k] = t
	return t
}

func mask(w int) uint64 {
	if w >= 64 {
		return ^uint64(0)
	}
	return (uint64(1) << uint(w)) - 1
}

func (t *Term) IsConst() bool { return t.Op == OpConst }
func (t *Term) IsBool() bool  { return t.W == 0 }

// Signed returns the constant's value sign-extended to int64.
func (t *Term) Signed() int64 {
	if t.W >= 64 || t.W == 0 {
		return int64(t.Val)
	}
	sh := uint(64 - t.W)
	return int64(t.Val<<sh) >> sh
}

func (s *Store) Const(w int, v uint64) *Term {
	if w == 0 {
		if v != 0 {
			return s.True
		}
		return s.False
	}
	return s.mk(&Term{Op: OpConst, W: w, Val: v & mask(w)})
}

func (s *Store) Bool(b bool) *Term {
	if b {
		return s.True
	}
	return s.False
}

// Var creates a fresh named variable (name must be unique per store).
func (s *Store) Var(name string, w int) *Term {
	t := s.mk(&Term{Op: OpVar, W: w, Name: name})
	for _, v := range s.Vars {
		if v == t {
			return t
		}
	}
	s.Vars = append(s.Vars, t)
	return t
}

func (s *Store) Not(a *Term) *Term {
	if a.IsConst() {
		return s.Bool(a.Val == 0)
	}
	if a.Op == OpNot {
		return a.Args[0]
	}
	return s.mk(&Term{Op: OpNot, Args: []*Term{a}})
}

func (s *Store) And(a, b *Term) *Term {
	if a.IsConst() {
		if a.Val == 0 {
			return s.False
		}
		return b
	}
	if b.IsConst() {
		if b.Val == 0 {
			return s.False
		}
		return a
	}
	if a == b {
		return a
	}
	if a.ID > b.ID {
		a, b = b, a
	}
	return s.mk(&Term{Op: OpAnd, Args: []*Term{a, b}})
}

func (s *Store) Or(a, b *Term) *Term {
	if a.IsConst() {
		if a.Val != 0 {
			return s.True
		}
		return b
	}
	if b.IsConst() {
		if b.Val != 0 {
			return s.True
		}
		return a
	}
	if a == b {
		return a
	}
	if a.ID > b.ID {
		a, b = b, a
	}
	return s.mk(&Term{Op: OpOr, Args: []*Term{a, b}})
}

func (s *Store) Implies(a, b *Term) *Term { return s.Or(s.Not(a), b) }

func (s *Store) Eq(a, b *Term) *Term {
	if a.W != b.W {
		panic(fmt.Sprintf("Eq width mismatch %d vs %d", a.W, b.W))
	}
	if a == b {
		return s.True
	}
	if a.IsConst() && b.IsConst() {
		return s.Bool(a.Val == b.Val)
	}
	if a.W == 0 {
		if a.IsConst() {
			if a.Val != 0 {
				return b
			}
			return s.Not(b)
		}
		if b.IsConst() {
			if b.Val != 0 {
				return a
			}
			return s.Not(a)
		}
	}
	if a.ID > b.ID {
		a, b = b, a
	}
	// (zext x) == const where const does not fit -> false
	if b.IsConst() && (a.Op == OpZExt) {
		inner := a.Args[0]
		if b.Val&^mask(inner.W) != 0 {
			return s.False
		}
		return s.Eq(inner, s.Const(inner.W, b.Val))
	}
	if a.IsConst() && (b.Op == OpZExt) {
		inner := b.Args[0]
		if a.Val&^mask(inner.W) != 0 {
			return s.False
		}
		return s.Eq(inner, s.Const(inner.W, a.Val))
	}
	return s.mk(&Term{Op: OpEq, Args: []*Term{a, b}})
}

func (s *Store) Ite(c, a, b *Term) *Term {
	if a.W != b.W {
		panic(fmt.Sprintf("Ite width mismatch %d vs %d", a.W, b.W))
	}
	if c.IsConst() {
		if c.Val != 0 {
			return a
		}
		return b
	}
	if a == b {
		return a
	}
	if a.W == 0 {
		if a.IsConst() && b.IsConst() {
			if a.Val != 0 {
				return c
			}
			return s.Not(c)
		}
		if a.IsConst() {
			if a.Val != 0 {
				return s.Or(c, b)
			}
			return s.And(s.Not(c), b)
		}
		if b.IsConst() {
			if b.Val != 0 {
				return s.Or(s.Not(c), a)
			}
			return s.And(c, a)
		}
	}
	return s.mk(&Term{Op: OpIte, W: a.W, Args: []*Term{c, a, b}})
}

func (s *Store) cmp(op Op, a, b *Term) *Term {
	if a.W != b.W {
		panic(fmt.Sprintf("cmp width mismatch %d vs %d", a.W, b.W))
	}
	if a.IsConst() && b.IsConst() {
		switch op {
		case OpUlt:
			return s.Bool(a.Val < b.Val)
		case OpUle:
			return s.Bool(a.Val <= b.Val)
		case OpSlt:
			return s.Bool(a.Signed() < b.Signed())
		case OpSle:
			return s.Bool(a.Signed() <= b.Signed())
		}
	}
	if a == b {
		return s.Bool(op == OpUle || op == OpSle)
	}
	// cheap range facts for zero-extended values
	if op == OpUlt && b.IsConst() && b.Val == 0 {
		return s.False
	}
	if op == OpUle && a.IsConst() && a.Val == 0 {
		return s.True
	}
	if a.Op == OpZExt && b.IsConst() {
		iw := a.Args[0].W
		if iw < a.W {
			maxv := mask(iw)
			switch op {
			case OpUlt:
				if b.Val > maxv {
					return s.True
				}
			case OpUle:
				if b.Val >= maxv {
					return s.True
				}
			case OpSlt:
				if b.Signed() > int64(maxv) {
					return s.True
				}
				if b.Signed() <= 0 {
					return s.False
				}
			case OpSle:
				if b.Signed() >= int64(maxv) {
					return s.True
				}
				if b.Signed() < 0 {
					return s.False
				}
			}
		}
	}
	if b.Op == OpZExt && a.IsConst() {
		iw := b.Args[0].W
		if iw < b.W {
			maxv := mask(iw)
			switch op {
			case OpUlt: // a < zext
				if a.Val >= maxv {
					return s.False
				}
			case OpUle:
				if a.Val > maxv {
					return s.False
				}
			case OpSlt:
				if a.Signed() < 0 {
					return s.True
				}
				if a.Signed() >= int64(maxv) {
					return s.False
				}
			case OpSle:
				if a.Signed() <= 0 {
					return s.True
				}
				if a.Signed() > int64(maxv) {
					return s.False
				}
			}
		}
	}
	return s.mk(&Term{Op: op, Args: []*Term{a, b}})
}

func (s *Store) Ult(a, b *Term) *Term { return s.cmp(OpUlt, a, b) }
func (s *Store) Ule(a, b *Term) *Term { return s.cmp(OpUle, a, b) }
func (s *Store) Slt(a, b *Term) *Term { return s.cmp(OpSlt, a, b) }
func (s *Store) Sle(a, b *Term) *Term { return s.cmp(OpSle, a, b) }

func foldBin(op Op, w int, x, y uint64) (uint64, bool) {
	m := mask(w)
	sx := func(v uint64) int64 {
		if w >= 64 {
			return int64(v)
		}
		sh := uint(64 - w)
		return int64(v<<sh) >> sh
	}
	switch op {
	case OpAdd:
		return (x + y) & m, true
	case OpSub:
		return (x - y) & m, true
	case OpMul:
		return (x * y) & m, true
	case OpUDiv:
		if y == 0 {
			return m, true
		}
		return x / y, true
	case OpURem:
		if y == 0 {
			return x, true
		}
		return x % y, true
	case OpSDiv:
		if y == 0 {
			return 0, false
		}
		a, b := sx(x), sx(y)
		if b == -1 {
			return uint64(-a) & m, true
		}
		return uint64(a/b) & m, true
	case OpSRem:
		if y == 0 {
			return 0, false
		}
		a, b := sx(x), sx(y)
		if b == -1 {
			return 0, true
		}
		return uint64(a%b) & m, true
	case OpBAnd:
		return x & y, true
	case OpBOr:
		return x | y, true
	case OpBXor:
		return x ^ y, true
	case OpShl:
		if y >= uint64(w) {
			return 0, true
		}
		return (x << y) & m, true
	case OpLShr:
		if y >= uint64(w) {
			return 0, true
		}
		return x >> y, true
	case OpAShr:
		a := sx(x)
		if y >= uint64(w) {
			if a < 0 {
				return m, true
			}
			return 0, true
		}
		return uint64(a>>y) & m, true
	}
	return 0, false
}

// Bin builds a binary bit-vector operation.
func (s *Store) Bin(op Op, a, b *Term) *Term {
	if a.W != b.W || a.W == 0 {
		panic(fmt.Sprintf("Bin %v width mismatch %d vs %d", opNames[op], a.W, b.W))
	}
	w := a.W
	if a.IsConst() && b.IsConst() {
		if v, ok := foldBin(op, w, a.Val, b.Val); ok {
			return s.Const(w, v)
		}
	}
	if useLinearForm && (op == OpAdd || op == OpSub || (op == OpMul && (a.IsConst() || b.IsConst())) || (op == OpShl && b.IsConst() && b.Val < uint64(w))) {
		if t := s.linBin(op, a, b); t != nil {
			return t
		}
	}
	switch op {
	case OpAdd:
		if a.IsConst() && a.Val == 0 {
			return b
		}
		if b.IsConst() && b.Val == 0 {
			return a
		}
		if a.IsConst() { // canonical: const on the right
			a, b = b, a
		}
		// (x + c1) + c2
		if b.IsConst() && a.Op == OpAdd && a.Args[1].IsConst() {
			return s.Bin(OpAdd, a.Args[0], s.Const(w, a.Args[1].Val+b.Val))
		}
	case OpSub:
		if b.IsConst() && b.Val == 0 {
			return a
		}
		if a == b {
			return s.Const(w, 0)
		}
		if b.IsConst() {
			return s.Bin(OpAdd, a, s.Const(w, -b.Val))
		}
	case OpMul:
		if a.IsConst() {
			a, b = b, a
		}
		if b.IsConst() {
			if b.Val == 0 {
				return s.Const(w, 0)
			}
			if b.Val == 1 {
				return a
			}
			if bits.OnesCount64(b.Val) == 1 {
				return s.Bin(OpShl, a, s.Const(w, uint64(bits.TrailingZeros64(b.Val))))
			}
		}
	case OpUDiv, OpSDiv:
		if b.IsConst() && b.Val == 1 {
			return a
		}
	case OpURem, OpSRem:
		if b.IsConst() && b.Val == 1 {
			return s.Const(w, 0)
		}
		if op == OpURem && b.IsConst() && bits.OnesCount64(b.Val) == 1 {
			return s.Bin(OpBAnd, a, s.Const(w, b.Val-1))
		}
	case OpBAnd:
		if a.IsConst() {
			a, b = b, a
		}
		if b.IsConst() {
			if b.Val == 0 {
				return s.Const(w, 0)
			}
			if b.Val == mask(w) {
				return a
			}
			// and of zext with a mask covering the inner width
			if a.Op == OpZExt && b.Val&mask(a.Args[0].W) == mask(a.Args[0].W) {
				return a
			}
			// low mask -> zext(extract)
			if b.Val&(b.Val+1) == 0 {
				k := bits.Len64(b.Val)
				if k < w {
					return s.ZExt(s.Extract(a, 0, k), w)
				}
			}
		}
		if a == b {
			return a
		}
	case OpBOr:
		if a.IsConst() {
			a, b = b, a
		}
		if b.IsConst() {
			if b.Val == 0 {
				return a
			}
			if b.Val == mask(w) {
				return b
			}
		}
		if a == b {
			return a
		}
	case OpBXor:
		if a.IsConst() {
			a, b = b, a
		}
		if b.IsConst() && b.Val == 0 {
			return a
		}
		if a == b {
			return s.Const(w, 0)
		}
	case OpShl, OpLShr, OpAShr:
		if b.IsConst() && b.Val == 0 {
			return a
		}
		if b.IsConst() && b.Val >= uint64(w) && op != OpAShr {
			return s.Const(w, 0)
		}
		if a.IsConst() && a.Val == 0 {
			return a
		}
		if op == OpLShr && b.IsConst() {
			// lshr of zext(x) by >= inner width is 0
			if a.Op == OpZExt && b.Val >= uint64(a.Args[0].W) {
				return s.Const(w, 0)
			}
			k := int(b.Val)
			return s.ZExt(s.Extract(a, k, w-k), w)
		}
	}
	return s.mk(&Term{Op: op, W: w, Args: []*Term{a, b}})
}

func (s *Store) BNot(a *Term) *Term {
	if a.IsConst() {
		return s.Const(a.W, ^a.Val)
	}
	return s.mk(&Term{Op: OpBNot, W: a.W, Args: []*Term{a}})
}

func (s *Store) Neg(a *Term) *Term {
	if a.IsConst() {
		return s.Const(a.W, -a.Val)
	}
	return s.mk(&Term{Op: OpNeg, W: a.W, Args: []*Term{a}})
}

func (s *Store) ZExt(a *Term, w int) *Term {
	if w == a.W {
		return a
	}
	if w < a.W {
		return s.Extract(a, 0, w)
	}
	if a.IsConst() {
		return s.Const(w, a.Val)
	}
	if a.Op == OpZExt {
		return s.ZExt(a.Args[0], w)
	}
	return s.mk(&Term{Op: OpZExt, W: w, Args: []*Term{a}})
}

func (s *Store) SExt(a *Term, w int) *Term {
	if w == a.W {
		return a
	}
	if w < a.W {
		return s.Extract(a, 0, w)
	}
	if a.IsConst() {
		return s.Const(w, uint64(a.Signed()))
	}
	if a.Op == OpZExt { // zero-extended value has a clear sign bit
		return s.ZExt(a.Args[0], w)
	}
	return s.mk(&Term{Op: OpSExt, W: w, Args: []*Term{a}})
}

// Extract returns bits [lo+w-1:lo] of a.
func (s *Store) Extract(a *Term, lo, w int) *Term {
	if lo == 0 && w == a.W {
		return a
	}
	if lo+w > a.W || w <= 0 {
		panic(fmt.Sprintf("Extract out of range lo=%d w=%d of %d", lo, w, a.W))
	}
	if a.IsConst() {
		return s.Const(w, a.Val>>uint(lo))
	}
	switch a.Op {
	case OpZExt:
		in := a.Args[0]
		if lo >= in.W {
			return s.Const(w, 0)
		}
		if lo+w <= in.W {
			return s.Extract(in, lo, w)
		}
		return s.ZExt(s.Extract(in, lo, in.W-lo), w)
	case OpSExt:
		in := a.Args[0]
		if lo+w <= in.W {
			return s.Extract(in, lo, w)
		}
	case OpExtract:
		return s.Extract(a.Args[0], lo+int(a.Val), w)
	case OpConcat:
		hi, l := a.Args[0], a.Args[1]
		if lo+w <= l.W {
			return s.Extract(l, lo, w)
		}
		if lo >= l.W {
			return s.Extract(hi, lo-l.W, w)
		}
	case OpBOr, OpBAnd, OpBXor:
		// push extraction through bitwise ops when it simplifies byte (un)packing
		x := s.Extract(a.Args[0], lo, w)
		y := s.Extract(a.Args[1], lo, w)
		if x.IsConst() || y.IsConst() {
			return s.Bin(a.Op, x, y)
		}
	case OpShl:
		if a.Args[1].IsConst() {
			k := int(a.Args[1].Val)
			if lo >= k {
				return s.Extract(a.Args[0], lo-k, w)
			}
			if lo+w <= k {
				return s.Const(w, 0)
			}
		}
	}
	return s.mk(&Term{Op: OpExtract, W: w, Val: uint64(lo), Args: []*Term{a}})
}

func (s *Store) Concat(hi, lo *Term) *Term {
	w := hi.W + lo.W
	if w > 64 {
		panic("Concat wider than 64")
	}
	if hi.IsConst() && lo.IsConst() {
		return s.Const(w, hi.Val<<uint(lo.W)|lo.Val)
	}
	if hi.IsConst() && hi.Val == 0 {
		return s.ZExt(lo, w)
	}
	return s.mk(&Term{Op: OpConcat, W: w, Args: []*Term{hi, lo}})
}

// --- SMT-LIB printing ---

func sortOf(w int) string {
	if w == 0 {
		return "Bool"
	}
	return fmt.Sprintf("(_ BitVec %d)", w)
}

func constLit(t *Term) string {
	if t.W == 0 {
		if t.Val != 0 {
			return "true"
		}
		return "false"
	}
	if t.W%4 == 0 {
		return fmt.Sprintf("#x%0*x", t.W/4, t.Val)
	}
	return fmt.Sprintf("#b%0*b", t.W, t.Val)
}

// ref is how a term is referenced in later commands.
func (t *Term) ref() string {
	switch t.Op {
	case OpConst:
		return constLit(t)
	case OpVar:
		return t.Name
	}
	return fmt.Sprintf("t%d", t.ID)
}

// body prints the defining expression using refs of children.
func (t *Term) body() string {
	switch t.Op {
	case OpZExt:
		return fmt.Sprintf("((_ zero_extend %d) %s)", t.W-t.Args[0].W, t.Args[0].ref())
	case OpSExt:
		return fmt.Sprintf("((_ sign_extend %d) %s)", t.W-t.Args[0].W, t.Args[0].ref())
	case OpExtract:
		lo := int(t.Val)
		return fmt.Sprintf("((_ extract %d %d) %s)", lo+t.W-1, lo, t.Args[0].ref())
	}
	var sb strings.Builder
	sb.WriteString("(")
	sb.WriteString(opNames[t.Op])
	for _, a := range t.Args {
		sb.WriteString(" ")
		sb.WriteString(a.ref())
	}
	sb.WriteString(")")
	return sb.String()
}

// String renders a term fully (for debugging / evidence samples).
func (t *Term) String() string {
	switch t.Op {
	case OpConst, OpVar:
		return t.ref()
	case OpZExt:
		return fmt.Sprintf("(zext%d %s)", t.W, t.Args[0])
	case OpSExt:
		return fmt.Sprintf("(sext%d %s)", t.W, t.Args[0])
	case OpExtract:
		return fmt.Sprintf("(extract[%d+%d] %s)", t.Val, t.W, t.Args[0])
	}
	var sb strings.Builder
	sb.WriteString("(")
	sb.WriteString(opNames[t.Op])
	for _, a := range t.Args {
		sb.WriteString(" ")
		sb.WriteString(a.String())
	}
	sb.WriteString(")")
	return sb.String()
}

// --- linear normal form for +, -, *const, <<const (mod 2^w) ---
//
// Sums such as rolling checksums accumulate long chains of additions and
// subtractions in which most atoms cancel again; keeping them in the canonical
// form  c + k1*a1 + k2*a2 + ...  (atoms ordered by id) makes those cancellations
// syntactic, keeps terms small and lets many branch conditions fold to constants.

type linAtom struct {
	t *Term
	k uint64
}

type linForm struct {
	c     uint64
	atoms []linAtom // sorted by t.ID, k != 0
}

const maxLinAtoms = 48

// useLinearForm: measured on the delta-search harnesses the rewrite did not pay off
// (flattening destroys the sharing of intermediate sums; HDeltaSender{n=4,m=4,b=3} went
// from 13 s to 250 s when always applied, and no gain when applied only on cancellation),
// so it is switched off; the code is kept for experiments.
const useLinearForm = false

func (s *Store) linOf(t *Term) *linForm {
	if l, ok := s.lin[t.ID]; ok {
		return l
	}
	var l *linForm
	m := mask(t.W)
	switch t.Op {
	case OpConst:
		l = &linForm{c: t.Val}
	case OpAdd:
		l = linAdd(s.linOf(t.Args[0]), s.linOf(t.Args[1]), 1, m)
	case OpSub:
		l = linAdd(s.linOf(t.Args[0]), s.linOf(t.Args[1]), m, m) // k = -1
	case OpNeg:
		l = linScale(s.linOf(t.Args[0]), m, m)
	case OpMul:
		switch {
		case t.Args[1].IsConst():
			l = linScale(s.linOf(t.Args[0]), t.Args[1].Val, m)
		case t.Args[0].IsConst():
			l = linScale(s.linOf(t.Args[1]), t.Args[0].Val, m)
		}
	case OpShl:
		if t.Args[1].IsConst() && t.Args[1].Val < uint64(t.W) {
			l = linScale(s.linOf(t.Args[0]), (uint64(1)<<t.Args[1].Val)&m, m)
		}
	}
	if l == nil || len(l.atoms) > maxLinAtoms {
		l = &linForm{atoms: []linAtom{{t, 1}}}
	}
	s.lin[t.ID] = l
	return l
}

func linScale(a *linForm, k, m uint64) *linForm {
	r := &linForm{c: (a.c * k) & m}
	for _, at := range a.atoms {
		if nk := (at.k * k) & m; nk != 0 {
			r.atoms = append(r.atoms, linAtom{at.t, nk})
		}
	}
	return r
}

// linAdd returns a + k*b.
func linAdd(a, b *linForm, k, m uint64) *linForm {
	r := &linForm{c: (a.c + b.c*k) & m}
	i, j := 0, 0
	for i < len(a.atoms) || j < len(b.atoms) {
		switch {
		case j >= len(b.atoms) || (i < len(a.atoms) && a.atoms[i].t.ID < b.atoms[j].t.ID):
			r.atoms = append(r.atoms, a.atoms[i])
			i++
		case i >= len(a.atoms) || b.atoms[j].t.ID < a.atoms[i].t.ID:
			if nk := (b.atoms[j].k * k) & m; nk != 0 {
				r.atoms = append(r.atoms, linAtom{b.atoms[j].t, nk})
			}
			j++
		default:
			if nk := (a.atoms[i].k + b.atoms[j].k*k) & m; nk != 0 {
				r.atoms = append(r.atoms, linAtom{a.atoms[i].t, nk})
			}
			i++
			j++
		}
	}
	return r
}

// linBin builds op(a, b) in canonical linear form, or returns nil to fall back.
func (s *Store) linBin(op Op, a, b *Term) *Term {
	w := a.W
	m := mask(w)
	la, lb := s.linOf(a), s.linOf(b)
	var l *linForm
	switch op {
	case OpAdd:
		l = linAdd(la, lb, 1, m)
	case OpSub:
		l = linAdd(la, lb, m, m)
	case OpMul:
		if b.IsConst() {
			l = linScale(la, b.Val, m)
		} else {
			l = linScale(lb, a.Val, m)
		}
	case OpShl:
		l = linScale(la, (uint64(1)<<b.Val)&m, m)
	}
	if l == nil || len(l.atoms) > maxLinAtoms {
		return nil
	}
	// Only rewrite when atoms actually cancelled: otherwise keep the program's own
	// expression DAG (its sharing of intermediate sums matters to the SAT back end).
	if op == OpAdd || op == OpSub {
		if len(l.atoms) >= len(la.atoms)+len(lb.atoms) {
			return nil
		}
		if len(l.atoms) >= len(la.atoms) && len(l.atoms) >= len(lb.atoms) && len(l.atoms) > 0 {
			// merged coefficients but nothing disappeared: not worth flattening
			return nil
		}
	} else {
		return nil
	}
	return s.fromLin(l, w)
}

// fromLin materialises the canonical term of a linear form with raw nodes. Coefficients
// above half the modulus are emitted as subtractions of the (small) negated coefficient and
// powers of two as shifts: multiplying by 2^w-1 is the same function as negating, but a
// multiplier circuit is far more expensive for the SAT back end than a subtractor.
func (s *Store) fromLin(l *linForm, w int) *Term {
	m := mask(w)
	scaled := func(t *Term, k uint64) *Term {
		if k == 1 {
			return t
		}
		if bits.OnesCount64(k) == 1 {
			return s.mk(&Term{Op: OpShl, W: w, Args: []*Term{t, s.Const(w, uint64(bits.TrailingZeros64(k)))}})
		}
		return s.mk(&Term{Op: OpMul, W: w, Args: []*Term{t, s.Const(w, k)}})
	}
	half := m>>1 + 1
	var pos, neg *Term
	for _, at := range l.atoms {
		if at.k < half {
			p := scaled(at.t, at.k)
			if pos == nil {
				pos = p
			} else {
				pos = s.mk(&Term{Op: OpAdd, W: w, Args: []*Term{pos, p}})
			}
		} else {
			p := scaled(at.t, (-at.k)&m)
			if neg == nil {
				neg = p
			} else {
				neg = s.mk(&Term{Op: OpAdd, W: w, Args: []*Term{neg, p}})
			}
		}
	}
	c := l.c & m
	var acc *Term
	switch {
	case pos == nil && neg == nil:
		return s.Const(w, c)
	case pos == nil:
		acc = s.mk(&Term{Op: OpSub, W: w, Args: []*Term{s.Const(w, c), neg}})
		c = 0
	case neg == nil:
		acc = pos
	default:
		acc = s.mk(&Term{Op: OpSub, W: w, Args: []*Term{pos, neg}})
	}
	if c != 0 {
		if c < half {
			acc = s.mk(&Term{Op: OpAdd, W: w, Args: []*Term{acc, s.Const(w, c)}})
		} else {
			acc = s.mk(&Term{Op: OpSub, W: w, Args: []*Term{acc, s.Const(w, (-c)&m)}})
		}
	}
	s.lin[acc.ID] = l
	return acc
}
