package sym

import (
	"fmt"
	"go/types"
	"strings"

	"golang.org/x/tools/go/ssa"
)

// Value is a run-time value of the symbolic interpreter:
//
//	*Term      integers (bit-vector of the Go width) and bools
//	Float      concrete floating-point number
//	Str        string: concrete length, bytes concrete or symbolic
//	Struct     []Value, copied on load/store
//	Array      []Value, copied on load/store
//	Tuple      []Value
//	Ptr        address of a Value cell (nil P = nil pointer)
//	SymPtr     guarded set of cells (result of symbolic indexing)
//	Slice      window on a shared backing []Value
//	*Map       association list with guarded presence
//	Iface      dynamic type + value
//	*ssa.Function, *Closure, *ssa.Builtin   callables
//	*Chan      sequentialised channel
//	Poison     result of an unmodelled computation during package init
type Value interface{}

type Float struct{ F float64 }

type Complex struct{ C complex128 }

type Str struct {
	S   string  // valid when Sym == nil
	Sym []*Term // 8-bit terms; non-nil means (partly) symbolic content
}

type Struct []Value
type Array []Value
type Tuple []Value

type Ptr struct {
	P *Value
	// Obj identifies the allocation the cell belongs to (for diagnostics only).
}

type symCand struct {
	G *Term
	P *Value
}

type SymPtr struct{ C []symCand }

type Slice struct {
	A      []Value // len(A)=len, cap(A)=cap
	NonNil bool
}

type mapEntry struct {
	K Value
	V Value
	P *Term // presence guard
}

type Map struct {
	E []*mapEntry
}

type Iface struct {
	T types.Type // nil for nil interface
	V Value
}

type Closure struct {
	Fn  *ssa.Function
	Env []Value
}

type Chan struct {
	Buf    []Value
	Closed bool
}

type Poison struct{ Why string }

// NativeFunc is a function value implemented by the interpreter itself.
type NativeFunc func(ex *Exec, args []Value) Value

// DataPtr is the result of unsafe.SliceData / unsafe.StringData: it can only be turned back
// into a slice or string (unsafe.Slice / unsafe.String).
type DataPtr struct {
	A []Value
	S *Str
}

// unsafe.Pointer values carry the original pointer.
type UnsafePtr struct{ V Value }

func (s Str) Len() int {
	if s.Sym != nil {
		return len(s.Sym)
	}
	return len(s.S)
}

func (s Str) IsConcrete() bool {
	if s.Sym == nil {
		return true
	}
	for _, b := range s.Sym {
		if !b.IsConst() {
			return false
		}
	}
	return true
}

// Concrete returns the Go string when all bytes are constants.
func (s Str) Concrete() (string, bool) {
	if s.Sym == nil {
		return s.S, true
	}
	var sb strings.Builder
	for _, b := range s.Sym {
		if !b.IsConst() {
			return "", false
		}
		sb.WriteByte(byte(b.Val))
	}
	return sb.String(), true
}

func (ex *Exec) strByte(s Str, i int) *Term {
	if s.Sym != nil {
		return s.Sym[i]
	}
	return ex.st.Const(8, uint64(s.S[i]))
}

func (ex *Exec) strBytes(s Str) []*Term {
	if s.Sym != nil {
		return s.Sym
	}
	out := make([]*Term, len(s.S))
	for i := 0; i < len(s.S); i++ {
		out[i] = ex.st.Const(8, uint64(s.S[i]))
	}
	return out
}

// mkStr normalises: all-constant symbolic strings become concrete.
func mkStr(bs []*Term) Str {
	for _, b := range bs {
		if !b.IsConst() {
			cp := make([]*Term, len(bs))
			copy(cp, bs)
			return Str{Sym: cp}
		}
	}
	var sb strings.Builder
	for _, b := range bs {
		sb.WriteByte(byte(b.Val))
	}
	return Str{S: sb.String()}
}

func intWidth(t types.Type) (w int, signed bool, ok bool) {
	b, isB := t.Underlying().(*types.Basic)
	if !isB {
		return 0, false, false
	}
	switch b.Kind() {
	case types.Bool, types.UntypedBool:
		return 0, false, true
	case types.Int8:
		return 8, true, true
	case types.Int16:
		return 16, true, true
	case types.Int32, types.UntypedRune:
		return 32, true, true
	case types.Int64, types.Int, types.UntypedInt:
		return 64, true, true
	case types.Uint8:
		return 8, false, true
	case types.Uint16:
		return 16, false, true
	case types.Uint32:
		return 32, false, true
	case types.Uint64, types.Uint, types.Uintptr:
		return 64, false, true
	}
	return 0, false, false
}

func isFloat(t types.Type) bool {
	b, ok := t.Underlying().(*types.Basic)
	return ok && b.Info()&types.IsFloat != 0
}

// zero returns the zero value of type t.
func (ex *Exec) zero(t types.Type) Value {
	switch u := t.Underlying().(type) {
	case *types.Basic:
		if u.Kind() == types.UnsafePointer {
			return UnsafePtr{}
		}
		if u.Info()&types.IsString != 0 {
			return Str{}
		}
		if u.Info()&types.IsFloat != 0 {
			return Float{}
		}
		if u.Info()&types.IsComplex != 0 {
			return Complex{}
		}
		if u.Kind() == types.UntypedNil {
			return Iface{}
		}
		w, _, ok := intWidth(t)
		if !ok {
			panic(engineErr("zero of basic %v", t))
		}
		return ex.st.Const(w, 0)
	case *types.Pointer:
		return Ptr{}
	case *types.Struct:
		s := make(Struct, u.NumFields())
		for i := range s {
			s[i] = ex.zero(u.Field(i).Type())
		}
		return s
	case *types.Array:
		n := int(u.Len())
		a := make(Array, n)
		// Large arrays: share an immutable zero for scalar element types lazily (nil = zero).
		if n > 4096 {
			return a // nil elements read as zero (see load)
		}
		for i := range a {
			a[i] = ex.zero(u.Elem())
		}
		return a
	case *types.Slice:
		return Slice{}
	case *types.Map:
		return (*Map)(nil)
	case *types.Interface:
		return Iface{}
	case *types.Signature:
		return nil
	case *types.Chan:
		return (*Chan)(nil)
	case *types.Tuple:
		tu := make(Tuple, u.Len())
		for i := range tu {
			tu[i] = ex.zero(u.At(i).Type())
		}
		return tu
	case *types.TypeParam:
		panic(engineErr("zero of type parameter %v", t))
	}
	panic(engineErr("zero: unhandled type %v (%T)", t, t.Underlying()))
}

// copyVal deep-copies aggregates with value semantics.
func copyVal(v Value) Value {
	switch v := v.(type) {
	case Struct:
		c := make(Struct, len(v))
		for i, e := range v {
			c[i] = copyVal(e)
		}
		return c
	case Array:
		c := make(Array, len(v))
		for i, e := range v {
			c[i] = copyVal(e)
		}
		return c
	}
	return v
}

// storeInto assigns v into the cell *p preserving the identity of nested cells.
func (ex *Exec) storeInto(p *Value, v Value) {
	switch nv := v.(type) {
	case Struct:
		if old, ok := (*p).(Struct); ok && len(old) == len(nv) {
			for i := range old {
				ex.storeInto(&old[i], nv[i])
			}
			return
		}
		*p = copyVal(nv)
	case Array:
		if old, ok := (*p).(Array); ok && len(old) == len(nv) {
			for i := range old {
				if nv[i] == nil {
					old[i] = nil
					continue
				}
				ex.storeInto(&old[i], nv[i])
			}
			return
		}
		*p = copyVal(nv)
	default:
		*p = v
	}
}

type EngineError struct{ Msg string }

func (e *EngineError) Error() string { return "engine: " + e.Msg }

func engineErr(f string, a ...interface{}) *EngineError {
	return &EngineError{Msg: fmt.Sprintf(f, a...)}
}

// ite merges two values of the same shape under a guard.
func (ex *Exec) iteVal(g *Term, a, b Value) Value {
	if g.IsConst() {
		if g.Val != 0 {
			return a
		}
		return b
	}
	switch x := a.(type) {
	case *Term:
		y, ok := b.(*Term)
		if !ok {
			panic(engineErr("iteVal shape mismatch %T vs %T", a, b))
		}
		return ex.st.Ite(g, x, y)
	case Struct:
		y := b.(Struct)
		r := make(Struct, len(x))
		for i := range x {
			r[i] = ex.iteVal(g, x[i], y[i])
		}
		return r
	case Array:
		y := b.(Array)
		r := make(Array, len(x))
		for i := range x {
			r[i] = ex.iteVal(g, x[i], y[i])
		}
		return r
	case Tuple:
		y := b.(Tuple)
		r := make(Tuple, len(x))
		for i := range x {
			r[i] = ex.iteVal(g, x[i], y[i])
		}
		return r
	case Str:
		y := b.(Str)
		if x.Len() == y.Len() {
			xb, yb := ex.strBytes(x), ex.strBytes(y)
			r := make([]*Term, len(xb))
			for i := range xb {
				r[i] = ex.st.Ite(g, xb[i], yb[i])
			}
			return mkStr(r)
		}
	}
	// Non-mergeable shapes (pointers, strings of different length, interfaces ...):
	// if they are identical no merge is needed, otherwise fork on the guard.
	if eq, ok := ex.equalConcrete(a, b); ok && eq {
		return a
	}
	if ex.branch(g) {
		return a
	}
	return b
}

// equalConcrete compares values when that is decidable without terms.
func (ex *Exec) equalConcrete(a, b Value) (bool, bool) {
	t := ex.equal(a, b)
	if t.IsConst() {
		return t.Val != 0, true
	}
	return false, false
}

// equal builds the Bool term a==b (Go == semantics).
func (ex *Exec) equal(a, b Value) *Term {
	st := ex.st
	switch x := a.(type) {
	case *Term:
		y, ok := b.(*Term)
		if !ok {
			return st.False
		}
		if x.W != y.W {
			return st.False
		}
		return st.Eq(x, y)
	case Float:
		y, ok := b.(Float)
		return st.Bool(ok && x.F == y.F)
	case Complex:
		y, ok := b.(Complex)
		return st.Bool(ok && x.C == y.C)
	case Str:
		y, ok := b.(Str)
		if !ok {
			return st.False
		}
		if x.Len() != y.Len() {
			return st.False
		}
		if x.Sym == nil && y.Sym == nil {
			return st.Bool(x.S == y.S)
		}
		r := st.True
		for i := 0; i < x.Len(); i++ {
			r = st.And(r, st.Eq(ex.strByte(x, i), ex.strByte(y, i)))
			if r == st.False {
				break
			}
		}
		return r
	case Struct:
		y, ok := b.(Struct)
		if !ok || len(x) != len(y) {
			return st.False
		}
		r := st.True
		for i := range x {
			r = st.And(r, ex.equal(x[i], y[i]))
		}
		return r
	case Array:
		y, ok := b.(Array)
		if !ok || len(x) != len(y) {
			return st.False
		}
		r := st.True
		for i := range x {
			xv, yv := x[i], y[i]
			if xv == nil && yv == nil {
				continue
			}
			if xv == nil || yv == nil {
				panic(engineErr("compare of lazily-zero array"))
			}
			r = st.And(r, ex.equal(xv, yv))
		}
		return r
	case Ptr:
		switch y := b.(type) {
		case Ptr:
			return st.Bool(x.P == y.P)
		case SymPtr:
			return ex.equal(b, a)
		}
		return st.False
	case SymPtr:
		if y, ok := b.(Ptr); ok {
			r := st.False
			for _, c := range x.C {
				if c.P == y.P {
					r = st.Or(r, c.G)
				}
			}
			return r
		}
		panic(engineErr("compare of symbolic pointers"))
	case Iface:
		y, ok := b.(Iface)
		if !ok {
			return st.False
		}
		if x.T == nil || y.T == nil {
			return st.Bool(x.T == nil && y.T == nil)
		}
		if !types.Identical(x.T, y.T) {
			return st.False
		}
		return ex.equal(x.V, y.V)
	case *Map:
		y, _ := b.(*Map)
		return st.Bool(x == y)
	case *Chan:
		y, _ := b.(*Chan)
		return st.Bool(x == y)
	case Slice:
		y, ok := b.(Slice)
		if ok && !x.NonNil && !y.NonNil {
			return st.True
		}
		return st.False
	case UnsafePtr:
		y, ok := b.(UnsafePtr)
		if !ok {
			return st.False
		}
		if x.V == nil || y.V == nil {
			return st.Bool(x.V == nil && y.V == nil)
		}
		return ex.equal(x.V, y.V)
	case nil:
		return st.Bool(b == nil)
	case *ssa.Function:
		return st.Bool(a == b)
	case *Closure:
		return st.Bool(a == b)
	}
	panic(engineErr("equal: unhandled %T", a))
}

// describe renders a value for diagnostics.
func describe(v Value) string {
	switch x := v.(type) {
	case *Term:
		s := x.String()
		if len(s) > 80 {
			s = s[:80] + "…"
		}
		return s
	case Str:
		if s, ok := x.Concrete(); ok {
			return fmt.Sprintf("%q", s)
		}
		return fmt.Sprintf("str[%d]", x.Len())
	case Iface:
		if x.T == nil {
			return "nil-iface"
		}
		return fmt.Sprintf("iface(%v)", x.T)
	}
	return fmt.Sprintf("%T", v)
}
