package sym

import (
	"fmt"
	"go/token"
	"go/types"
	"math"
	"unicode/utf8"

	"golang.org/x/tools/go/ssa"
)

func (ex *Exec) unop(in *ssa.UnOp, x Value) Value {
	st := ex.st
	switch in.Op {
	case token.MUL: // load
		return ex.load(in.Type(), x)
	case token.NOT:
		return st.Not(x.(*Term))
	case token.SUB:
		switch v := x.(type) {
		case *Term:
			return st.Neg(v)
		case Float:
			return Float{-v.F}
		case Complex:
			return Complex{-v.C}
		}
	case token.XOR:
		return st.BNot(x.(*Term))
	case token.ARROW: // channel receive
		ch, _ := x.(*Chan)
		if ch == nil {
			panic(engineErr("receive from nil channel blocks forever at %s", ex.pos()))
		}
		elem := in.X.Type().Underlying().(*types.Chan).Elem()
		var v Value
		ok := false
		if len(ch.Buf) > 0 {
			v = ch.Buf[0]
			ch.Buf = ch.Buf[1:]
			ok = true
		} else if ch.Closed {
			v = ex.zero(elem)
		} else {
			panic(engineErr("receive on empty channel in sequentialised model at %s", ex.pos()))
		}
		if in.CommaOk {
			return Tuple{v, st.Bool(ok)}
		}
		return v
	}
	panic(engineErr("unop %v on %T", in.Op, x))
}

func (ex *Exec) strLess(a, b Str, orEq bool) *Term {
	st := ex.st
	if a.Sym == nil && b.Sym == nil {
		if orEq {
			return st.Bool(a.S <= b.S)
		}
		return st.Bool(a.S < b.S)
	}
	na, nb := a.Len(), b.Len()
	n := min(na, nb)
	// result for the tail when the common prefix is equal
	var r *Term
	if orEq {
		r = st.Bool(na <= nb)
	} else {
		r = st.Bool(na < nb)
	}
	for i := n - 1; i >= 0; i-- {
		x, y := ex.strByte(a, i), ex.strByte(b, i)
		r = st.Ite(st.Eq(x, y), r, st.Ult(x, y))
	}
	return r
}

func (ex *Exec) binop(op token.Token, xt types.Type, x, y Value, yt types.Type) Value {
	st := ex.st
	switch xv := x.(type) {
	case *Term:
		yv, ok := y.(*Term)
		if !ok {
			break
		}
		w, signed, _ := intWidth(xt)
		if xv.W == 0 { // bool
			switch op {
			case token.EQL:
				return st.Eq(xv, yv)
			case token.NEQ:
				return st.Not(st.Eq(xv, yv))
			case token.AND, token.LAND:
				return st.And(xv, yv)
			case token.OR, token.LOR:
				return st.Or(xv, yv)
			}
			break
		}
		_ = w
		switch op {
		case token.ADD:
			return st.Bin(OpAdd, xv, yv)
		case token.SUB:
			return st.Bin(OpSub, xv, yv)
		case token.MUL:
			return st.Bin(OpMul, xv, yv)
		case token.QUO, token.REM:
			ex.require(st.Not(st.Eq(yv, st.Const(yv.W, 0))), "div0", "integer divide by zero")
			if signed {
				if op == token.QUO {
					return st.Bin(OpSDiv, xv, yv)
				}
				return st.Bin(OpSRem, xv, yv)
			}
			if op == token.QUO {
				return st.Bin(OpUDiv, xv, yv)
			}
			return st.Bin(OpURem, xv, yv)
		case token.AND:
			return st.Bin(OpBAnd, xv, yv)
		case token.OR:
			return st.Bin(OpBOr, xv, yv)
		case token.XOR:
			return st.Bin(OpBXor, xv, yv)
		case token.AND_NOT:
			return st.Bin(OpBAnd, xv, st.BNot(yv))
		case token.SHL, token.SHR:
			_, ysigned, _ := intWidth(yt)
			if ysigned {
				ex.require(st.Sle(st.Const(yv.W, 0), yv), "panic", "negative shift amount")
			}
			// normalise count to x's width, saturating
			var cnt *Term
			var big *Term
			if yv.W > xv.W {
				big = st.Ule(st.Const(yv.W, uint64(xv.W)), yv)
				cnt = st.Extract(yv, 0, xv.W)
			} else {
				cnt = st.ZExt(yv, xv.W)
				if xv.W >= 64 || uint64(xv.W) <= mask(yv.W) {
					big = st.Ule(st.Const(xv.W, uint64(xv.W)), cnt)
				} else {
					big = st.False
				}
			}
			if op == token.SHL {
				return st.Ite(big, st.Const(xv.W, 0), st.Bin(OpShl, xv, cnt))
			}
			if signed {
				fill := st.Bin(OpAShr, xv, st.Const(xv.W, uint64(xv.W-1)))
				return st.Ite(big, fill, st.Bin(OpAShr, xv, cnt))
			}
			return st.Ite(big, st.Const(xv.W, 0), st.Bin(OpLShr, xv, cnt))
		case token.EQL:
			return st.Eq(xv, yv)
		case token.NEQ:
			return st.Not(st.Eq(xv, yv))
		case token.LSS:
			if signed {
				return st.Slt(xv, yv)
			}
			return st.Ult(xv, yv)
		case token.LEQ:
			if signed {
				return st.Sle(xv, yv)
			}
			return st.Ule(xv, yv)
		case token.GTR:
			if signed {
				return st.Slt(yv, xv)
			}
			return st.Ult(yv, xv)
		case token.GEQ:
			if signed {
				return st.Sle(yv, xv)
			}
			return st.Ule(yv, xv)
		}
	case Float:
		yv, ok := y.(Float)
		if !ok {
			break
		}
		a, b := xv.F, yv.F
		if bt, ok := xt.Underlying().(*types.Basic); ok && bt.Kind() == types.Float32 {
			switch op {
			case token.ADD:
				return Float{float64(float32(a) + float32(b))}
			case token.SUB:
				return Float{float64(float32(a) - float32(b))}
			case token.MUL:
				return Float{float64(float32(a) * float32(b))}
			case token.QUO:
				return Float{float64(float32(a) / float32(b))}
			}
		}
		switch op {
		case token.ADD:
			return Float{a + b}
		case token.SUB:
			return Float{a - b}
		case token.MUL:
			return Float{a * b}
		case token.QUO:
			return Float{a / b}
		case token.EQL:
			return st.Bool(a == b)
		case token.NEQ:
			return st.Bool(a != b)
		case token.LSS:
			return st.Bool(a < b)
		case token.LEQ:
			return st.Bool(a <= b)
		case token.GTR:
			return st.Bool(a > b)
		case token.GEQ:
			return st.Bool(a >= b)
		}
	case Str:
		yv, ok := y.(Str)
		if !ok {
			break
		}
		switch op {
		case token.ADD:
			if xv.Sym == nil && yv.Sym == nil {
				return Str{S: xv.S + yv.S}
			}
			return mkStr(append(append([]*Term{}, ex.strBytes(xv)...), ex.strBytes(yv)...))
		case token.EQL:
			return ex.equal(xv, yv)
		case token.NEQ:
			return st.Not(ex.equal(xv, yv))
		case token.LSS:
			return ex.strLess(xv, yv, false)
		case token.LEQ:
			return ex.strLess(xv, yv, true)
		case token.GTR:
			return ex.strLess(yv, xv, false)
		case token.GEQ:
			return ex.strLess(yv, xv, true)
		}
	}
	switch op {
	case token.EQL:
		return ex.equal(x, y)
	case token.NEQ:
		return st.Not(ex.equal(x, y))
	}
	panic(engineErr("binop %v on %T, %T at %s", op, x, y, ex.pos()))
}

func (ex *Exec) conv(dst, src types.Type, x Value) Value {
	st := ex.st
	du, su := dst.Underlying(), src.Underlying()
	// unsafe.Pointer <-> pointer / uintptr
	if db, ok := du.(*types.Basic); ok && db.Kind() == types.UnsafePointer {
		if _, isU := x.(UnsafePtr); isU {
			return x
		}
		return UnsafePtr{V: x}
	}
	if sb, ok := su.(*types.Basic); ok && sb.Kind() == types.UnsafePointer {
		up := x.(UnsafePtr)
		if _, isPtr := du.(*types.Pointer); isPtr {
			if up.V == nil {
				return Ptr{}
			}
			return up.V
		}
		panic(engineErr("unsafe.Pointer -> %v", dst))
	}
	switch xv := x.(type) {
	case *Term:
		if db, ok := du.(*types.Basic); ok {
			if db.Info()&types.IsString != 0 {
				// string(rune)
				if !xv.IsConst() {
					return ex.runeToStr(xv, src)
				}
				return Str{S: string(rune(xv.Signed()))}
			}
			if db.Info()&types.IsFloat != 0 {
				if !xv.IsConst() {
					// Floating point is concrete-only: fork over nothing, give up loudly.
					panic(engineErr("int->float conversion of symbolic value at %s", ex.pos()))
				}
				_, ssigned, _ := intWidth(src)
				var f float64
				if ssigned {
					f = float64(xv.Signed())
				} else {
					f = float64(xv.Val)
				}
				if db.Kind() == types.Float32 {
					f = float64(float32(f))
				}
				return Float{f}
			}
			w, _, ok := intWidth(dst)
			if !ok {
				break
			}
			_, ssigned, _ := intWidth(src)
			if w == 0 || xv.W == 0 {
				return xv
			}
			if w <= xv.W {
				return st.Extract(xv, 0, w)
			}
			if ssigned {
				return st.SExt(xv, w)
			}
			return st.ZExt(xv, w)
		}
	case Float:
		if db, ok := du.(*types.Basic); ok {
			if db.Info()&types.IsFloat != 0 {
				if db.Kind() == types.Float32 {
					return Float{float64(float32(xv.F))}
				}
				return xv
			}
			w, signed, ok := intWidth(dst)
			if ok {
				if signed {
					return st.Const(w, uint64(int64(xv.F)))
				}
				return st.Const(w, uint64(xv.F))
			}
		}
	case Str:
		switch d := du.(type) {
		case *types.Basic:
			return xv
		case *types.Slice:
			eb := d.Elem().Underlying().(*types.Basic)
			if eb.Kind() == types.Uint8 {
				bs := ex.strBytes(xv)
				a := make([]Value, len(bs))
				for i, b := range bs {
					a[i] = b
				}
				return Slice{A: a, NonNil: true}
			}
			// []rune
			s, ok := xv.Concrete()
			if !ok {
				panic(engineErr("[]rune(symbolic string)"))
			}
			var a []Value
			for _, r := range s {
				a = append(a, st.Const(32, uint64(r)))
			}
			return Slice{A: a, NonNil: true}
		}
	case Slice:
		if db, ok := du.(*types.Basic); ok && db.Info()&types.IsString != 0 {
			eb := su.(*types.Slice).Elem().Underlying().(*types.Basic)
			if eb.Kind() == types.Uint8 {
				bs := make([]*Term, len(xv.A))
				for i, e := range xv.A {
					if e == nil {
						bs[i] = st.Const(8, 0)
					} else {
						bs[i] = e.(*Term)
					}
				}
				return mkStr(bs)
			}
			// []rune -> string
			var rs []rune
			for _, e := range xv.A {
				t := e.(*Term)
				if !t.IsConst() {
					panic(engineErr("string([]rune) symbolic"))
				}
				rs = append(rs, rune(t.Signed()))
			}
			return Str{S: string(rs)}
		}
		if _, ok := du.(*types.Slice); ok {
			return xv
		}
	case Ptr, SymPtr, Struct, Array, *Map, *Chan, Iface, *ssa.Function, *Closure, nil:
		return x
	}
	panic(engineErr("conv %v -> %v (%T) at %s", src, dst, x, ex.pos()))
}

// --- maps ---

func (ex *Exec) mapLookup(m *Map, k Value, vT types.Type) (Value, *Term) {
	st := ex.st
	var res Value = ex.zero(vT)
	found := st.False
	if m == nil {
		return res, found
	}
	for i := len(m.E) - 1; i >= 0; i-- {
		e := m.E[i]
		hit := st.And(e.P, ex.equal(e.K, k))
		if hit == st.False {
			continue
		}
		if hit == st.True {
			// definite hit shadows older entries (they cannot be present with equal key)
			res = copyVal(e.V)
			found = st.True
			continue
		}
		res = ex.iteVal(hit, e.V, res)
		found = st.Or(found, hit)
	}
	return res, found
}

func (ex *Exec) mapInsert(m *Map, k, v Value) {
	st := ex.st
	anyEq := st.False
	for _, e := range m.E {
		hit := st.And(e.P, ex.equal(e.K, k))
		if hit == st.False {
			continue
		}
		if hit == st.True {
			e.V = copyVal(v)
			return
		}
		e.V = ex.iteVal(hit, v, e.V)
		anyEq = st.Or(anyEq, hit)
	}
	p := st.Not(anyEq)
	if p == st.False {
		return
	}
	m.E = append(m.E, &mapEntry{K: copyVal(k), V: copyVal(v), P: p})
}

func (ex *Exec) mapDelete(m *Map, k Value) {
	if m == nil {
		return
	}
	st := ex.st
	out := m.E[:0]
	for _, e := range m.E {
		hit := ex.equal(e.K, k)
		e.P = st.And(e.P, st.Not(hit))
		if e.P != st.False {
			out = append(out, e)
		}
	}
	m.E = out
}

func (ex *Exec) mapLen(m *Map) *Term {
	st := ex.st
	n := st.Const(64, 0)
	if m == nil {
		return n
	}
	for _, e := range m.E {
		n = st.Bin(OpAdd, n, st.Ite(e.P, st.Const(64, 1), st.Const(64, 0)))
	}
	return n
}

func (ex *Exec) lookup(in *ssa.Lookup, x, idx Value) Value {
	switch xv := x.(type) {
	case *Map:
		vT := in.X.Type().Underlying().(*types.Map).Elem()
		v, ok := ex.mapLookup(xv, idx, vT)
		if in.CommaOk {
			return Tuple{v, ok}
		}
		return v
	case Str:
		// string indexing via Lookup
		i := ex.idxTerm(idx, in.Index.Type())
		n := xv.Len()
		ex.boundsCheck(i, n, "string")
		if i.IsConst() {
			return ex.strByte(xv, int(i.Val))
		}
		st := ex.st
		var r *Term = st.Const(8, 0)
		for j := n - 1; j >= 0; j-- {
			r = st.Ite(st.Eq(i, st.Const(64, uint64(j))), ex.strByte(xv, j), r)
		}
		return r
	}
	panic(engineErr("lookup on %T", x))
}

// --- builtins ---

func (ex *Exec) callBuiltin(b *ssa.Builtin, args []Value, site ssa.Instruction) Value {
	st := ex.st
	switch b.Name() {
	case "len":
		switch x := args[0].(type) {
		case Str:
			return st.Const(64, uint64(x.Len()))
		case Slice:
			return st.Const(64, uint64(len(x.A)))
		case Array:
			return st.Const(64, uint64(len(x)))
		case *Map:
			return ex.mapLen(x)
		case Ptr:
			if x.P == nil {
				return st.Const(64, 0)
			}
			if a, ok := (*x.P).(Array); ok {
				return st.Const(64, uint64(len(a)))
			}
		case *Chan:
			if x == nil {
				return st.Const(64, 0)
			}
			return st.Const(64, uint64(len(x.Buf)))
		}
		// len(*[N]T) with nil pointer: take from static type
		if cs, ok := site.(ssa.CallInstruction); ok {
			t := cs.Common().Args[0].Type()
			if p, ok := t.Underlying().(*types.Pointer); ok {
				if a, ok := p.Elem().Underlying().(*types.Array); ok {
					return st.Const(64, uint64(a.Len()))
				}
			}
		}
		panic(engineErr("len of %T", args[0]))
	case "cap":
		switch x := args[0].(type) {
		case Slice:
			return st.Const(64, uint64(cap(x.A)))
		case Array:
			return st.Const(64, uint64(len(x)))
		case *Chan:
			return st.Const(64, 0)
		case Ptr:
			if a, ok := (*x.P).(Array); ok {
				return st.Const(64, uint64(len(a)))
			}
		}
		panic(engineErr("cap of %T", args[0]))
	case "append":
		s := args[0].(Slice)
		var add []Value
		switch t := args[1].(type) {
		case Slice:
			add = t.A
		case Str:
			for _, bt := range ex.strBytes(t) {
				add = append(add, bt)
			}
		default:
			panic(engineErr("append of %T", args[1]))
		}
		if len(add) == 0 {
			return s
		}
		n := len(s.A)
		if n+len(add) <= cap(s.A) {
			a := s.A[:n+len(add)]
			for i, e := range add {
				a[n+i] = copyVal(e)
			}
			return Slice{A: a, NonNil: true}
		}
		newCap := max(2*cap(s.A), n+len(add), 4)
		a := make([]Value, n+len(add), newCap)
		copy(a, s.A)
		for i, e := range add {
			a[n+i] = copyVal(e)
		}
		// zero the spare capacity lazily (nil reads as zero)
		return Slice{A: a, NonNil: true}
	case "copy":
		dst := args[0].(Slice)
		var n int
		switch src := args[1].(type) {
		case Slice:
			n = min(len(dst.A), len(src.A))
			// memmove semantics
			tmp := make([]Value, n)
			for i := 0; i < n; i++ {
				tmp[i] = copyVal(src.A[i])
			}
			copy(dst.A, tmp)
		case Str:
			n = min(len(dst.A), src.Len())
			for i := 0; i < n; i++ {
				dst.A[i] = ex.strByte(src, i)
			}
		default:
			panic(engineErr("copy from %T", args[1]))
		}
		return st.Const(64, uint64(n))
	case "delete":
		ex.mapDelete(args[0].(*Map), args[1])
		return nil
	case "print", "println":
		return nil
	case "panic":
		panic(ex.newPanic(args[0], ex.panicString(args[0])))
	case "recover":
		// the frame that called recover() is a deferred function; its caller is the panicking frame
		fr := ex.curFr
		if fr != nil && fr.caller != nil && fr.caller.panicking {
			fr.caller.panicking = false
			tp := fr.caller.panicVal.(targetPanic)
			if tp.v != nil {
				return tp.v
			}
			// runtime error: give it an opaque error value
			return ex.mkError("runtime error: " + tp.msg)
		}
		return Iface{}
	case "close":
		ch := args[0].(*Chan)
		if ch != nil {
			ch.Closed = true
		}
		return nil
	case "min", "max":
		r := args[0]
		sig := site.(ssa.CallInstruction).Common().Args[0].Type()
		for _, a := range args[1:] {
			op := token.LSS
			if b.Name() == "max" {
				op = token.GTR
			}
			switch rv := r.(type) {
			case *Term:
				c := ex.binop(op, sig, a, rv, sig).(*Term)
				r = st.Ite(c, a.(*Term), rv)
			case Float:
				if b.Name() == "min" {
					r = Float{math.Min(rv.F, a.(Float).F)}
				} else {
					r = Float{math.Max(rv.F, a.(Float).F)}
				}
			case Str:
				c := ex.binop(op, sig, a, rv, sig).(*Term)
				if ex.branch(c) {
					r = a
				}
			}
		}
		return r
	case "clear":
		switch x := args[0].(type) {
		case *Map:
			if x != nil {
				x.E = nil
			}
		case Slice:
			t := site.(ssa.CallInstruction).Common().Args[0].Type().Underlying().(*types.Slice).Elem()
			for i := range x.A {
				x.A[i] = ex.zero(t)
			}
		}
		return nil
	case "SliceData":
		return DataPtr{A: args[0].(Slice).A}
	case "StringData":
		st0 := args[0].(Str)
		return DataPtr{S: &st0}
	case "String":
		dp, ok := args[0].(DataPtr)
		if !ok {
			if p, isP := args[0].(Ptr); isP && p.P == nil {
				return Str{}
			}
			panic(engineErr("unsafe.String on %T", args[0]))
		}
		n := int(ex.concretize(args[1].(*Term), 0, 1<<30, "unsafe.String length"))
		if dp.S != nil {
			if dp.S.Sym == nil {
				return Str{S: dp.S.S[:n]}
			}
			return mkStr(dp.S.Sym[:n])
		}
		if n == 0 {
			return Str{}
		}
		return mkStr(sliceBytes(ex, Slice{A: dp.A[:n]}))
	case "Slice":
		dp, ok := args[0].(DataPtr)
		if !ok {
			panic(engineErr("unsafe.Slice on %T", args[0]))
		}
		n := int(ex.concretize(args[1].(*Term), 0, 1<<30, "unsafe.Slice length"))
		if dp.S != nil {
			bs := ex.strBytes(*dp.S)
			a := make([]Value, n)
			for i := 0; i < n; i++ {
				a[i] = bs[i]
			}
			return Slice{A: a, NonNil: true}
		}
		return Slice{A: dp.A[:n:n], NonNil: true}
	case "ssa:wrapnilchk":
		recv := args[0]
		if p, ok := recv.(Ptr); ok && p.P == nil {
			panic(ex.newPanic(nil, "value method called using nil pointer"))
		}
		return recv
	}
	panic(engineErr("builtin %s", b.Name()))
}

var _ = fmt.Sprintf
var _ = utf8.RuneError

// runeToStr is string(r) for a symbolic integer r (UTF-8 encoding; invalid code points
// become U+FFFD), forking on the encoded length.
func (ex *Exec) runeToStr(x *Term, src types.Type) Str {
	st := ex.st
	_, signed, _ := intWidth(src)
	var r *Term
	if x.W >= 32 {
		// values that do not fit in 32 bits are invalid
		if x.W > 32 {
			hi := st.Extract(x, 32, x.W-32)
			fits := st.Eq(hi, st.Const(x.W-32, 0))
			if !ex.branch(fits) {
				return Str{S: "\uFFFD"}
			}
		}
		r = st.Extract(x, 0, 32)
	} else if signed {
		r = st.SExt(x, 32)
	} else {
		r = st.ZExt(x, 32)
	}
	c := func(v uint64) *Term { return st.Const(32, v) }
	b8 := func(t *Term) *Term { return st.Extract(t, 0, 8) }
	shr := func(t *Term, k uint64) *Term { return st.Bin(OpLShr, t, c(k)) }
	and := func(t *Term, m uint64) *Term { return st.Bin(OpBAnd, t, c(m)) }
	or := func(t *Term, m uint64) *Term { return st.Bin(OpBOr, t, c(m)) }
	if ex.branch(st.Ult(r, c(0x80))) {
		return mkStr([]*Term{b8(r)})
	}
	if ex.branch(st.Ult(r, c(0x800))) {
		return mkStr([]*Term{b8(or(shr(r, 6), 0xC0)), b8(or(and(r, 0x3F), 0x80))})
	}
	surrogate := st.And(st.Ule(c(0xD800), r), st.Ule(r, c(0xDFFF)))
	if ex.branch(st.Or(surrogate, st.Ult(c(0x10FFFF), r))) {
		return Str{S: "\uFFFD"}
	}
	if ex.branch(st.Ult(r, c(0x10000))) {
		return mkStr([]*Term{b8(or(shr(r, 12), 0xE0)), b8(or(and(shr(r, 6), 0x3F), 0x80)), b8(or(and(r, 0x3F), 0x80))})
	}
	return mkStr([]*Term{b8(or(shr(r, 18), 0xF0)), b8(or(and(shr(r, 12), 0x3F), 0x80)), b8(or(and(shr(r, 6), 0x3F), 0x80)), b8(or(and(r, 0x3F), 0x80))})
}
